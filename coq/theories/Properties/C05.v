(** C05 — the gateway endpoint needs confirmed credentials of an enabled
    scheme. Model: Model/HttpAuth.v (route table of main(), Basic/NTLM
    middlewares); the backend's verdict is an answer attached to the request. *)
From Coq Require Import List NArith Bool Lia String.
From Coq.Strings Require Import Byte.
From RDPGW Require Import Lib.Bytes Gen.Consts Gen.Facts Model.HttpAuth.
Import ListNotations.
Open Scope N_scope.

(** For every mechanism subset other than OpenID alone, every list of
    Authorization values and every backend answer: the tunnel handler runs only
    if the first Authorization value carries credentials of an ENABLED scheme that
    the backend CONFIRMED, and the identity handed to the tunnel is the confirmed
    name (the Basic user name the backend said yes to; the name the NTLM service
    returned). *)
Theorem C05_handler_only_confirmed : forall m values basic bk r,
  openid_only m = false ->
  dispatch m values basic bk = Handler r ->
  (m_local m = true /\ bk = BkBasic true /\ exists u p, basic = Some (u, p) /\ r = Some u) \/
  (m_ntlm m = true /\ exists u, bk = BkNtlmOk u /\ r = Some u /\
     (is_prefix s_NTLM_sp (first_value values) = true \/ is_prefix s_Negotiate_sp (first_value values) = true)).
Proof.
  intros m values basic bk r O D. unfold dispatch, pick_route in D. rewrite O in D.
  destruct (bytes_eqb (first_value values) []); [discriminate|].
  destruct (m_ntlm m && (any_contains s_NTLM values || any_contains s_Negotiate values)) eqn:N.
  { apply andb_true_iff in N as [N _]. right. split; [exact N|].
    destruct (is_prefix s_NTLM_sp (first_value values)) eqn:P1; cbn [orb] in D.
    - destruct bk; try discriminate. inversion D; subst. eauto.
    - destruct (is_prefix s_Negotiate_sp (first_value values)) eqn:P2; [|discriminate].
      destruct bk; try discriminate. inversion D; subst. eauto. }
  destruct (m_local m && any_contains s_Basic values) eqn:B.
  { apply andb_true_iff in B as [B _]. left. split; [exact B|].
    destruct basic as [[u p]|]; [|discriminate]. destruct bk as [[]| | | | |]; try discriminate.
    inversion D; subst. eauto 6. }
  destruct (m_kerberos m && any_contains s_Negotiate values); [destruct bk; discriminate | discriminate].
Qed.
Print Assumptions C05_handler_only_confirmed.

(** A request without an Authorization header (or with an empty first value)
    gets 401 with one challenge per registered scheme, in registration order. *)
Theorem C05_no_header_challenges : forall m rest basic bk,
  openid_only m = false ->
  dispatch m ([] :: rest) basic bk = Status 401 (challenges m) /\
  dispatch m [] basic bk = Status 401 (challenges m).
Proof. intros m rest basic bk O. unfold dispatch, pick_route. rewrite O. split; reflexivity. Qed.
Print Assumptions C05_no_header_challenges.

(** The challenges of [challenges m] are registered in main() under exactly the test of their own
    mechanism (regenerated from the source; error exits aside): a challenge that depends on anything
    else would be missing from the 401 of a configuration that enables the mechanism. *)
Definition bs (s : string) : bytes := list_byte_of_string s.
Definition without_error_exits (t : list (bytes * list bytes)) : list (bytes * list bytes) :=
  map (fun s => (fst s, filter (fun g => negb (bytes_eqb g (bs "!err!=nil"))) (snd s))) t.
Theorem C05_challenges_registered_per_mechanism :
  without_error_exits CHALLENGES_registered =
  [ (bs "auth.Register(`NTLM`)", [bs "conf.Server.NtlmEnabled()"]);
    (bs "auth.Register(`Negotiate`)", [bs "conf.Server.NtlmEnabled()"]);
    (bs "auth.Register(`Basic realm=""restricted"", charset=""UTF-8""`)", [bs "conf.Server.BasicAuthEnabled()"]);
    (bs "auth.Register(""Negotiate"")", [bs "conf.Server.KerberosEnabled()"]) ].
Proof. vm_compute. reflexivity. Qed.
Print Assumptions C05_challenges_registered_per_mechanism.

(** Converse, under the hypothesis the unanchored route patterns force: confirmed
    Basic credentials reach the handler when no Authorization value contains the
    keyword of an earlier route; confirmed NTLM credentials always do. *)
Theorem C05_confirmed_basic_reaches_partial : forall m values u p,
  openid_only m = false -> m_local m = true -> first_value values <> [] ->
  any_contains s_Basic values = true ->
  (m_ntlm m = true -> any_contains s_NTLM values = false /\ any_contains s_Negotiate values = false) ->
  dispatch m values (Some (u, p)) (BkBasic true) = Handler (Some u).
Proof.
  intros m values u p O L F B Sh. unfold dispatch, pick_route. rewrite O.
  apply bytes_eqb_neq in F. rewrite F.
  destruct (m_ntlm m) eqn:N.
  - destruct (Sh eq_refl) as [S1 S2]. rewrite S1, S2. cbn [orb andb]. rewrite L, B. reflexivity.
  - cbn [andb]. rewrite L, B. reflexivity.
Qed.
Print Assumptions C05_confirmed_basic_reaches_partial.

Theorem C05_confirmed_ntlm_reaches : forall m values basic u,
  openid_only m = false -> m_ntlm m = true ->
  is_prefix s_NTLM_sp (first_value values) = true ->
  any_contains s_NTLM values = true ->
  dispatch m values basic (BkNtlmOk u) = Handler (Some u).
Proof.
  intros m values basic u O N P C. unfold dispatch, pick_route. rewrite O.
  assert (F : bytes_eqb (first_value values) [] = false).
  { destruct (first_value values); [discriminate | reflexivity]. }
  rewrite F, N, C. cbn [orb andb]. rewrite P. reflexivity.
Qed.
Print Assumptions C05_confirmed_ntlm_reaches.

(** The unrestricted converse is false of the route table as written: valid
    Basic credentials whose text contains "NTLM" are taken by the NTLM route when
    both mechanisms are enabled (recorded finding route-shadowing). *)
Definition shadow_value : bytes := s_Basic ++ [x20; x4e; x54; x4c; x4d; x4e; x54; x4c; x4d].  (* "Basic NTLMNTLM" *)
Theorem C05_converse_refuted :
  dispatch {| m_openid := false; m_kerberos := false; m_local := true; m_ntlm := true |}
    [shadow_value] (Some ([x35], [x33])) (BkBasic true) = Status 401 [s_NTLM; s_Negotiate].
Proof. vm_compute. reflexivity. Qed.
Print Assumptions C05_converse_refuted.

(** With OpenID alone the endpoint is open at HTTP level (the access cookie is the gate). *)
Theorem C05_openid_only_open : forall values basic bk,
  dispatch {| m_openid := true; m_kerberos := false; m_local := false; m_ntlm := false |} values basic bk = Handler None.
Proof. reflexivity. Qed.
Print Assumptions C05_openid_only_open.

(** All 2^4 mechanism subsets: wrong, malformed or disabled-scheme credentials
    never reach the handler (the backend did not confirm / was not asked). *)
Theorem C05_unconfirmed_never_reaches : forall m values basic bk r,
  openid_only m = false -> dispatch m values basic bk = Handler r ->
  bk = BkBasic true \/ exists u, bk = BkNtlmOk u.
Proof.
  intros m values basic bk r O D. destruct (C05_handler_only_confirmed m values basic bk r O D) as [[_ [H _]]|[_ [u [H _]]]]; eauto.
Qed.
Print Assumptions C05_unconfirmed_never_reaches.

Example C05_example :
  dispatch {| m_openid := false; m_kerberos := false; m_local := true; m_ntlm := false |}
    [s_Basic ++ [x20; x4d; x54; x6f; x7a]] (Some ([x31], [x33])) (BkBasic true) = Handler (Some [x31]).
Proof. vm_compute. reflexivity. Qed.

(** The decisions of the transcribed functions, as the source has them now (regenerated by the
    translator: conditions, case labels, returns, branches, go and defer statements in source order).
    The model is a transcription of exactly this text. *)
Theorem C05_decisions_as_transcribed :
  DECISIONS_BasicAuth =
    [[x72; x65; x74; x75; x72; x6e; x20; x3c; x2a; x61; x73; x74; x2e; x46; x75; x6e; x63; x4c; x69; x74; x3e] (* return <*ast.FuncLit> *);
     [x69; x66; x20; x6f; x6b] (* if ok *);
     [x69; x66; x20; x21; x61; x75; x74; x68; x65; x6e; x74; x69; x63; x61; x74; x65; x64] (* if !authenticated *);
     [x72; x65; x74; x75; x72; x6e] (* return *)] /\
  DECISIONS_NTLMauthenticate =
    [[x69; x66; x20; x68; x2e; x53; x6f; x63; x6b; x65; x74; x41; x64; x64; x72; x65; x73; x73; x3d; x3d; x22; x22] (* if h.SocketAddress=="" *);
     [x72; x65; x74; x75; x72; x6e; x20; x66; x61; x6c; x73; x65; x2c; x22; x22] (* return false,"" *);
     [x72; x65; x74; x75; x72; x6e; x20; x6e; x65; x74; x2e; x44; x69; x61; x6c; x28; x70; x72; x6f; x74; x6f; x63; x6f; x6c; x47; x72; x70; x63; x2c; x61; x64; x64; x72; x29] (* return net.Dial(protocolGrpc,addr) *);
     [x69; x66; x20; x65; x72; x72; x21; x3d; x6e; x69; x6c] (* if err!=nil *);
     [x72; x65; x74; x75; x72; x6e; x20; x66; x61; x6c; x73; x65; x2c; x22; x22] (* return false,"" *);
     [x64; x65; x66; x65; x72; x20; x63; x6f; x6e; x6e; x2e; x43; x6c; x6f; x73; x65] (* defer conn.Close *);
     [x64; x65; x66; x65; x72; x20; x63; x61; x6e; x63; x65; x6c] (* defer cancel *);
     [x69; x66; x20; x65; x72; x72; x21; x3d; x6e; x69; x6c] (* if err!=nil *);
     [x72; x65; x74; x75; x72; x6e; x20; x66; x61; x6c; x73; x65; x2c; x22; x22] (* return false,"" *);
     [x69; x66; x20; x72; x65; x73; x2e; x4e; x74; x6c; x6d; x4d; x65; x73; x73; x61; x67; x65; x21; x3d; x22; x22] (* if res.NtlmMessage!="" *);
     [x72; x65; x74; x75; x72; x6e; x20; x66; x61; x6c; x73; x65; x2c; x22; x22] (* return false,"" *);
     [x69; x66; x20; x21; x72; x65; x73; x2e; x41; x75; x74; x68; x65; x6e; x74; x69; x63; x61; x74; x65; x64] (* if !res.Authenticated *);
     [x72; x65; x74; x75; x72; x6e; x20; x66; x61; x6c; x73; x65; x2c; x22; x22] (* return false,"" *);
     [x72; x65; x74; x75; x72; x6e; x20; x72; x65; x73; x2e; x41; x75; x74; x68; x65; x6e; x74; x69; x63; x61; x74; x65; x64; x2c; x72; x65; x73; x2e; x55; x73; x65; x72; x6e; x61; x6d; x65] (* return res.Authenticated,res.Username *)] /\
  DECISIONS_NTLMAuth =
    [[x72; x65; x74; x75; x72; x6e; x20; x3c; x2a; x61; x73; x74; x2e; x46; x75; x6e; x63; x4c; x69; x74; x3e] (* return <*ast.FuncLit> *);
     [x69; x66; x20; x65; x72; x72; x21; x3d; x6e; x69; x6c] (* if err!=nil *);
     [x72; x65; x74; x75; x72; x6e] (* return *);
     [x69; x66; x20; x61; x75; x74; x68; x65; x6e; x74; x69; x63; x61; x74; x65; x64] (* if authenticated *)].
Proof. vm_compute. repeat split; reflexivity. Qed.
Print Assumptions C05_decisions_as_transcribed.
