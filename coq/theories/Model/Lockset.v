(** Threads with mutexes and shared locations, interleaving semantics, and the
    locking discipline ("every access to x is made while holding lk x").
    Definitions only. *)
From Coq Require Import List NArith Bool.
Import ListNotations.
Open Scope N_scope.

Inductive act :=
| Acq (m : N)          (* m.Lock() *)
| Rel (m : N)          (* m.Unlock() *)
| Rd (x : N)           (* read of shared location x *)
| Wr (x : N).          (* write of shared location x *)

(** A thread: the locks it owns and the actions it still has to perform. *)
Record thr := { held : list N; rest : list act }.
Definition sys := list thr.

Definition mem (m : N) (l : list N) : bool := existsb (N.eqb m) l.
Definition remove1 (m : N) (l : list N) : list N := filter (fun k => negb (k =? m)) l.

Definition free (m : N) (s : sys) : bool := forallb (fun t => negb (mem m (held t))) s.

(** One step of thread [i]. *)
Definition step_thr (s : sys) (t : thr) : option thr :=
  match rest t with
  | [] => None
  | Acq m :: r => if free m s then Some {| held := m :: held t; rest := r |} else None
  | Rel m :: r => Some {| held := remove1 m (held t); rest := r |}
  | Rd _ :: r | Wr _ :: r => Some {| held := held t; rest := r |}
  end.

Fixpoint set_nth (i : nat) (t : thr) (s : sys) : sys :=
  match s, i with
  | [], _ => []
  | _ :: s', O => t :: s'
  | x :: s', S i' => x :: set_nth i' t s'
  end.

Inductive step : sys -> sys -> Prop :=
| Step s i t t' : nth_error s i = Some t -> step_thr s t = Some t' -> step s (set_nth i t' s).

Inductive reach : sys -> sys -> Prop :=
| ReachRefl s : reach s s
| ReachStep s s' s'' : reach s s' -> step s' s'' -> reach s s''.

(** A data race: two distinct threads both about to access the same location,
    at least one of them writing. *)
Definition next_access (t : thr) : option (N * bool) :=
  match rest t with Rd x :: _ => Some (x, false) | Wr x :: _ => Some (x, true) | _ => None end.

Definition race (s : sys) : Prop :=
  exists i j ti tj x wi wj,
    i <> j /\ nth_error s i = Some ti /\ nth_error s j = Some tj /\
    next_access ti = Some (x, wi) /\ next_access tj = Some (x, wj) /\ (wi || wj = true).

(** The discipline, checked along a thread from a given held set: every access
    to x happens while lk x is held; only held locks are released; no lock is
    acquired twice. *)
Fixpoint disciplined (lk : N -> N) (h : list N) (p : list act) : bool :=
  match p with
  | [] => true
  | Acq m :: r => negb (mem m h) && disciplined lk (m :: h) r
  | Rel m :: r => mem m h && disciplined lk (remove1 m h) r
  | Rd x :: r | Wr x :: r => mem (lk x) h && disciplined lk h r
  end.
