(** Symbolic model of the NTLM verifier of the authentication service
    (cmd/auth/ntlm/ntlm.go). The NTLMv2 computation is not re-proved: a response
    is a term recording the user name, the password and the server challenge it
    was computed for, and it verifies iff those are the configured ones.
    Definitions only. *)
From Coq Require Import List NArith ZArith Bool.
From Coq.Strings Require Import Byte.
From RDPGW Require Import Lib.Bytes Gen.Consts.
Import ListNotations.
Open Scope Z_scope.

Inductive resp :=
| RespFor (user pw : bytes) (chal : N)   (* NTLMv2 response of (user, pw) to challenge [chal] *)
| RespBad.                               (* any other response bytes *)

Inductive nmsg :=
| NEmpty                                 (* "" *)
| NBadBase64
| NNegotiate                             (* a well-formed type-1 message *)
| NNegotiateBad                          (* message type 1 that does not parse *)
| NAuth (user : bytes) (r : resp)        (* a well-formed type-3 message *)
| NGarbage.                              (* anything else *)

Inductive nout :=
| OErr                                   (* error returned *)
| OChallenge (c : N)                     (* challenge message returned *)
| OAuthOK (user : bytes)                 (* Authenticated = true, Username = user *)
| ONotAuth.                              (* no error, not authenticated, no message *)

Definition expiry : Z := Z.of_N ntlm_cacheExpiration_SECONDS.   (* cacheExpiration, regenerated from the source *)

(** One cached context: creation time and the challenge of its server session. *)
Record nctx := { n_created : Z; n_chal : option N }.
Record nstate := { n_ctxs : list (bytes * nctx); n_next : N }.
Definition nstate0 : nstate := {| n_ctxs := []; n_next := 1%N |}.

Fixpoint get_ctx (s : bytes) (l : list (bytes * nctx)) : option nctx :=
  match l with
  | [] => None
  | (s', c) :: l' => if bytes_eqb s s' then Some c else get_ctx s l'
  end.
Fixpoint del_ctx (s : bytes) (l : list (bytes * nctx)) : list (bytes * nctx) :=
  match l with
  | [] => []
  | (s', c) :: l' => if bytes_eqb s s' then del_ctx s l' else (s', c) :: del_ctx s l'
  end.
Definition put_ctx (s : bytes) (c : nctx) (l : list (bytes * nctx)) := (s, c) :: del_ctx s l.

(** getContext: the cached context unless expired, else a new empty one. *)
Definition live_ctx (t : Z) (s : bytes) (st : nstate) : nctx :=
  match get_ctx s (n_ctxs st) with
  | Some c => if t - n_created c <? expiry then c else {| n_created := t; n_chal := None |}
  | None => {| n_created := t; n_chal := None |}
  end.

Definition verifies (db : bytes -> bytes) (c : nctx) (user : bytes) (r : resp) : bool :=
  match n_chal c, r with
  | Some ch, RespFor u pw ch' =>
      bytes_eqb u user && bytes_eqb pw (db user) && (ch =? ch')%N && negb (bytes_eqb (db user) [])
  | _, _ => false
  end.

(** [NTLMAuth.Authenticate] at time [t] for session [s]. *)
Definition nstep (db : bytes -> bytes) (st : nstate) (t : Z) (s : bytes) (m : nmsg) : nstate * nout :=
  match s with
  | [] => (st, OErr)
  | _ =>
    match m with
    | NEmpty => (st, OErr)
    | _ =>
      let c := live_ctx t s st in
      let drop := {| n_ctxs := del_ctx s (n_ctxs st); n_next := n_next st |} in
      match m with
      | NEmpty | NBadBase64 | NNegotiateBad | NGarbage => (drop, OErr)
      | NNegotiate =>
          let ch := n_next st in
          ({| n_ctxs := put_ctx s {| n_created := n_created c; n_chal := Some ch |} (n_ctxs st);
              n_next := (n_next st + 1)%N |}, OChallenge ch)
      | NAuth user r =>
          match n_chal c with
          | None => (drop, OErr)                      (* "should start with negotiate" *)
          | Some _ =>
              if verifies db c user r then (drop, OAuthOK user)
              else (drop, ONotAuth)                   (* a context serves one attempt *)
          end
      end
    end
  end.

Definition nop := (Z * bytes * nmsg)%type.

Fixpoint nrun (db : bytes -> bytes) (st : nstate) (ops : list nop) : list nout :=
  match ops with
  | [] => []
  | (t, s, m) :: rest => let '(st', o) := nstep db st t s m in o :: nrun db st' rest
  end.

Fixpoint nfinal (db : bytes -> bytes) (st : nstate) (ops : list nop) : nstate :=
  match ops with
  | [] => st
  | (t, s, m) :: rest => nfinal db (fst (nstep db st t s m)) rest
  end.
