(** The packets [readMessage] hands to [Process] for a list of transport reads
    (fold of [Packets.fstep]); C08's implementation side. Definitions only. *)
From Coq Require Import List NArith Bool.
From Coq.Strings Require Import Byte.
From RDPGW Require Import Lib.Bytes Gen.Consts Model.Packets.
Import ListNotations.
Open Scope N_scope.

Inductive frame_end := FeOpen (st : fstate) | FeError | FeMalformed.

Fixpoint frames_from (st : fstate) (reads : list bytes) : list (N * bytes) * frame_end :=
  match reads with
  | [] => ([], FeOpen st)
  | r :: rest =>
      match fstep st r with
      | FNeed st' => frames_from st' rest
      | FPacket ty _ body => let '(ps, e) := frames_from Fresh rest in ((ty, body) :: ps, e)
      | FError => ([], FeError)
      | FMalformed => ([], FeMalformed)
      end
  end.

Definition frames_of (reads : list bytes) : list (N * bytes) * frame_end := frames_from Fresh reads.

(** A well-formed packet as the client sends it. *)
Definition wf_packet (ty : N) (body : bytes) : Prop := ty < 65536 /\ blen body + 8 < 4294967296.

(** Segmentations for which the pinned defragmenter is correct: every packet
    alone in one read, or cut once with a first part that fits the scratch buffer. *)
Inductive seg_one : bytes -> list bytes -> Prop :=
| SegWhole p : seg_one p [p]
| SegTwo a b : b <> [] -> (length a <= N.to_nat READMSG_BUF)%nat -> seg_one (a ++ b) [a; b].

Inductive seg_ok : list bytes -> list bytes -> Prop :=
| SegNil : seg_ok [] []
| SegCons p rs ps rest : seg_one p rs -> seg_ok ps rest -> seg_ok (p :: ps) (rs ++ rest).
