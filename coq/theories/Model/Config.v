(** Transcription of the start-up decisions of the gateway: the consistency
    checks and key substitution of [config.Load]
    (cmd/rdpgw/config/configuration.go:188-233) followed by the fatal paths of
    [main()] (session store, NewHandler, OpenID provider, keytab, krb5.conf).
    Definitions only. *)
From Coq Require Import List NArith ZArith Bool.
From Coq.Strings Require Import Byte.
From RDPGW Require Import Lib.Bytes Gen.Consts Model.Policy.
Import ListNotations.
Open Scope N_scope.

Record rawcfg := {
  r_openid : bool; r_kerberos : bool; r_local : bool; r_ntlm : bool;   (* Server.Authentication contains ... *)
  r_tls_disable : bool;                                                (* Server.Tls = "disable" *)
  r_hostsel : bytes;                                                   (* Server.HostSelection *)
  r_querykey_len : N;                                                  (* len Security.QueryTokenSigningKey *)
  r_hosts : N;                                                         (* number of Server.Hosts *)
  r_keytab_set : bool;                                                 (* Kerberos.Keytab <> "" *)
  r_tokenauth : bool;                                                  (* Caps.TokenAuth *)
  r_enable_usertoken : bool;                                           (* Security.EnableUserToken *)
  r_paa_enc_len : N; r_paa_sign_len : N; r_user_enc_len : N;           (* configured key lengths *)
  r_session_len : N; r_session_enc_len : N }.

(** What the start-up asks of its environment. *)
Record envc := { e_idp_ok : bool; e_keytab_loadable : bool; e_krb5conf_ok : bool }.

(** A key after [config.Load]: the configured one, or a fresh random one. *)
Inductive keysrc := Configured | Fresh.
Definition subst_key (len : N) : keysrc := if len =? CONFIG_KEY_LEN then Configured else Fresh.

Record started := {
  k_paa_enc : keysrc; k_paa_sign : keysrc; k_user_enc : keysrc; k_session : keysrc; k_session_enc : keysrc }.

Inductive outcome := Fatal | Started (k : started).

Definition fatal_in_load (r : rawcfg) : bool :=
  (bytes_eqb (r_hostsel r) s_signed && (r_querykey_len r =? 0))
  || (r_local r && r_tls_disable r)
  || (r_ntlm r && r_kerberos r)
  || (negb (r_tokenauth r) && r_openid r)
  || (r_kerberos r && negb (r_keytab_set r)).

Definition fatal_in_main (r : rawcfg) (e : envc) : bool :=
  (r_hosts r <? 1)
  || (r_openid r && negb (e_idp_ok e))
  || (r_kerberos r && negb (e_keytab_loadable e && e_krb5conf_ok e)).

Definition start (r : rawcfg) (e : envc) : outcome :=
  if fatal_in_load r || fatal_in_main r e then Fatal
  else Started {| k_paa_enc := subst_key (r_paa_enc_len r);
                  k_paa_sign := subst_key (r_paa_sign_len r);
                  k_user_enc := if r_enable_usertoken r then subst_key (r_user_enc_len r) else Configured;
                  k_session := subst_key (r_session_len r);
                  k_session_enc := subst_key (r_session_enc_len r) |}.

(** Effective length of a key the instance runs with. *)
Definition effective_len (configured : N) (k : keysrc) : N :=
  match k with Configured => configured | Fresh => CONFIG_KEY_LEN end.

(** What a started instance serves ([main()]'s route wiring): the OpenID routes
    (/connect, /callback), the challenges the gateway endpoint answers a request
    without credentials with, and whether the endpoint is reachable without HTTP
    authentication at all (the OpenID-only configuration, where the access cookie
    inside the tunnel is the authentication). *)
Record served := {
  sv_openid_routes : bool; sv_basic : bool; sv_ntlm : bool; sv_negotiate : bool; sv_open_endpoint : bool }.

Definition serves (r : rawcfg) : served :=
  {| sv_openid_routes := r_openid r;
     sv_basic := r_local r;
     sv_ntlm := r_ntlm r;
     sv_negotiate := r_ntlm r || r_kerberos r;
     sv_open_endpoint := r_openid r && negb (r_kerberos r) && negb (r_local r) && negb (r_ntlm r) |}.
