(** Several tunnels at once (cmd/rdpgw/protocol/gateway.go: one Tunnel and one
    Processor per connection, found through the connection-id cache and passed
    through the request context). Every operation names the connection it
    arrives on. Definitions only. *)
From Coq Require Import List NArith ZArith Bool.
From Coq.Strings Require Import Byte.
From RDPGW Require Import Lib.Bytes Gen.Consts Model.Packets Model.Processor.
Import ListNotations.
Open Scope N_scope.

(** One tunnel of the gateway: its processor state, whether it ended, and which
    legacy channels are attached. *)
Record gtun := { g_st : tstate; g_ended : bool; g_out : bool; g_in : bool }.
Definition gtun0 : gtun := {| g_st := tstate0; g_ended := false; g_out := false; g_in := false |}.

Definition gstate := list (N * gtun).           (* connection id -> tunnel *)

Fixpoint gget (id : N) (g : gstate) : option gtun :=
  match g with [] => None | (i, t) :: g' => if id =? i then Some t else gget id g' end.
Fixpoint gset (id : N) (t : gtun) (g : gstate) : gstate :=
  match g with
  | [] => [(id, t)]
  | (i, t') :: g' => if id =? i then (id, t) :: g' else (i, t') :: gset id t g'
  end.

Inductive gop :=
| GOpenWs (id : N)                      (* websocket upgrade: in and out at once *)
| GOpenOut (id : N)                     (* legacy RDG_OUT_DATA *)
| GOpenIn (id : N)                      (* legacy RDG_IN_DATA *)
| GRead (id : N) (it : read_item).      (* a transport read on that tunnel's inbound channel *)

Inductive gout :=
| GAccepted | GRefused                  (* answer to an open request *)
| GEvents (evs : list event)            (* events of one read *)
| GIgnored.                             (* read on a tunnel that is not running *)

Definition running (t : gtun) : bool := g_in t && g_out t && negb (g_ended t).

Definition gstep (c : cfg) (g : gstate) (op : gop) : gstate * gout :=
  match op with
  | GOpenWs id =>
      (gset id {| g_st := tstate0; g_ended := false; g_out := true; g_in := true |} g, GAccepted)
  | GOpenOut id =>
      let t := match gget id g with Some t => t | None => gtun0 end in
      (gset id {| g_st := g_st t; g_ended := g_ended t; g_out := true; g_in := g_in t |} g, GAccepted)
  | GOpenIn id =>
      match gget id g with
      | Some t =>
          if g_out t && negb (g_in t)
          then (gset id {| g_st := g_st t; g_ended := g_ended t; g_out := true; g_in := true |} g, GAccepted)
          else (g, GRefused)
      | None => (g, GRefused)             (* no outbound channel with this id *)
      end
  | GRead id it =>
      match gget id g with
      | Some t =>
          if running t then
            let '(st', evs, fin) := tstep c (g_st t) it in
            (gset id {| g_st := st'; g_ended := fin; g_out := g_out t; g_in := g_in t |} g, GEvents evs)
          else (g, GIgnored)
      | None => (g, GIgnored)
      end
  end.

Fixpoint grun (c : cfg) (g : gstate) (ops : list gop) : list (gop * gout) :=
  match ops with
  | [] => []
  | op :: rest => let '(g', o) := gstep c g op in (op, o) :: grun c g' rest
  end.

Definition op_id (op : gop) : N :=
  match op with GOpenWs i | GOpenOut i | GOpenIn i | GRead i _ => i end.

(** What tunnel [id] sees of a global run: the outputs of its own operations. *)
Definition project (id : N) (tr : list (gop * gout)) : list gout :=
  map snd (filter (fun p => op_id (fst p) =? id) tr).
Definition own_ops (id : N) (ops : list gop) : list gop := filter (fun op => op_id op =? id) ops.
