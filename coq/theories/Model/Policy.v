(** Transcription of the host policy: [security.CheckHost]
    (cmd/rdpgw/security/basic.go), [security.CheckSession]
    (cmd/rdpgw/security/jwt.go:36-57), the client address computed by
    [web.EnrichContext] (cmd/rdpgw/web/context.go) and their wiring in main().
    Definitions only. *)
From Coq Require Import List NArith Bool.
From Coq.Strings Require Import Byte.
From RDPGW Require Import Lib.Bytes Gen.Consts.
Import ListNotations.
Open Scope N_scope.

(** The [switch HostSelection] of CheckHost, cases as listed in the source
    (regenerated: CHECKHOST_CASES = ["any"; "signed"; "roundrobin|unsigned"]). *)
Inductive hmode := HAny | HSigned | HList | HOther.

Definition s_any : bytes := [x61; x6e; x79].
Definition s_signed : bytes := [x73; x69; x67; x6e; x65; x64].
Definition s_roundrobin : bytes := [x72; x6f; x75; x6e; x64; x72; x6f; x62; x69; x6e].
Definition s_unsigned : bytes := [x75; x6e; x73; x69; x67; x6e; x65; x64].

Definition hmode_of (m : bytes) : hmode :=
  if bytes_eqb m s_any then HAny
  else if bytes_eqb m s_signed then HSigned
  else if bytes_eqb m s_roundrobin || bytes_eqb m s_unsigned then HList
  else HOther.

Definition check_host (mode : bytes) (hosts : list bytes) (user : bytes) (host : bytes) : bool :=
  match hmode_of mode with
  | HAny => true
  | HSigned => false
  | HList =>
      match user with
      | [] => false
      | _ => existsb (fun h => bytes_eqb (replace_first HOST_PLACEHOLDER user h) host) hosts
      end
  | HOther => false
  end.

(** The tunnel fields the policy reads. Under token authentication they are
    written when the cookie is accepted. *)
Record tunnel_info := { t_target : bytes; t_remote : bytes; t_user : bytes }.

Definition check_session (verify : bool) (t : tunnel_info) (client_ip : bytes) (host : bytes)
           (next : bool) : bool :=
  if negb (bytes_eqb (t_target t) host) then false
  else if verify && negb (bytes_eqb (t_remote t) client_ip) then false
  else next.

(** main.go:195-200 *)
Definition wired_policy (token_auth verify : bool) (mode : bytes) (hosts : list bytes)
           (t : tunnel_info) (client_ip : bytes) (host : bytes) : bool :=
  if token_auth then check_session verify t client_ip host (check_host mode hosts (t_user t) host)
  else check_host mode hosts (t_user t) host.

(* ---- client address (EnrichContext) ---- *)

Definition is_ascii_space (b : byte) : bool :=
  match b with x20 | x09 | x0a | x0b | x0c | x0d => true | _ => false end.

Fixpoint trim_left (s : bytes) : bytes :=
  match s with c :: s' => if is_ascii_space c then trim_left s' else s | [] => [] end.
Definition trim_ascii (s : bytes) : bytes := rev (trim_left (rev (trim_left s))).

(** First comma-separated element. *)
Fixpoint first_elem (s : bytes) : bytes :=
  match s with
  | [] => []
  | c :: s' => if Byte.eqb c x2c then [] else c :: first_elem s'
  end.

(** [xff]: value of the first X-Forwarded-For header ([] when absent or empty);
    [peer_host]: host part of the TCP peer address. *)
Definition client_ip (xff : bytes) (peer_host : bytes) : bytes :=
  match xff with
  | [] => peer_host
  | _ => trim_ascii (first_elem xff)
  end.
