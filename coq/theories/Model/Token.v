(** Symbolic model of the gateway's tokens (cmd/rdpgw/security/jwt.go).
    Cryptography is not re-proved: a token is a term recording which algorithm
    and which key produced its MAC / ciphertext, and "verifies under k" means
    "was built with k". Definitions only. *)
From Coq Require Import List NArith ZArith Bool.
From Coq.Strings Require Import Byte.
From RDPGW Require Import Lib.Bytes Gen.Consts.
Import ListNotations.
Open Scope Z_scope.

Inductive alg := HS256 | HS384 | HS512 | RS256 | AlgNone | AlgOther.
Definition alg_name (a : alg) : bytes :=
  match a with
  | HS256 => [x48; x53; x32; x35; x36]
  | HS384 => [x48; x53; x33; x38; x34]
  | HS512 => [x48; x53; x35; x31; x32]
  | RS256 => [x52; x53; x32; x35; x36]
  | AlgNone => [x6e; x6f; x6e; x65]
  | AlgOther => [x3f]
  end.
Definition alg_eqb (a b : alg) : bool := bytes_eqb (alg_name a) (alg_name b).
Definition in_list (x : bytes) (l : list bytes) : bool := existsb (bytes_eqb x) l.

Record claims := {
  cl_iss : bytes; cl_sub : bytes;
  cl_exp : option Z; cl_nbf : option Z; cl_iat : option Z;    (* seconds *)
  cl_host : bytes; cl_ip : bytes; cl_at : bytes }.              (* remoteServer, clientIp, accessToken *)

(** What a client can present as a signed token. *)
Inductive jws :=
| JEmpty                                        (* the empty string *)
| JCompact (a : alg) (key : bytes) (c : claims) (* compact JWS; MAC/signature made with [a] under [key] *)
| JUnparseable.                                 (* anything else: noise, JSON serialisation, nested, bad base64/JSON *)

Definition leeway : Z := 60.                    (* jwt.DefaultLeeway *)

(** [Claims.Validate(Expected{Issuer, Time})] *)
Definition validate (issuer : bytes) (now : Z) (c : claims) : bool :=
  (* jwt.Expected{Issuer: ""} does not constrain the issuer *)
  match issuer with [] => true | _ => bytes_eqb issuer (cl_iss c) end
  && match cl_nbf c with Some n => negb (now + leeway <? n) | None => true end
  && match cl_exp c with Some e => negb (e <? now - leeway) | None => true end
  && match cl_iat c with Some i => negb (now + leeway <? i) | None => true end.

Inductive paa_result :=
| PaaReject
| PaaAccept (host ip user : bytes).             (* tunnel.TargetServer, RemoteAddr, User name *)

(** [CheckPAACookie]; returns the verdict and whether the IdP was consulted. *)
Definition check_paa (signing_key : bytes) (now : Z) (idp : bytes -> option bytes) (tok : jws)
  : paa_result * bool :=
  match tok with
  | JEmpty => (PaaReject, false)
  | JUnparseable => (PaaReject, false)
  | JCompact a key c =>
      if negb (in_list (alg_name a) PAA_SIG_ALGS) then (PaaReject, false)       (* ParseSigned allow-list *)
      else if negb (alg_eqb a HS256) then (PaaReject, false)                    (* header loop *)
      else if negb (bytes_eqb key signing_key) then (PaaReject, false)          (* token.Claims(SigningKey) *)
      else if negb (validate PAA_CHECK_ISSUER now c) then (PaaReject, false)
      else match idp (cl_at c) with
           | Some subject => (PaaAccept (cl_host c) (cl_ip c) subject, true)
           | None => (PaaReject, true)
           end
  end.

(** [GeneratePAAToken] *)
Definition mint_paa (signing_key : bytes) (now : Z) (user host ip atok : bytes) : option jws :=
  if (blen signing_key <? PAA_MIN_KEY)%N then None
  else Some (JCompact HS256 signing_key
               {| cl_iss := PAA_MINT_ISSUER; cl_sub := user; cl_exp := Some (now + Z.of_N PAA_EXPIRY_SECONDS);
                  cl_nbf := None; cl_iat := None; cl_host := host; cl_ip := ip; cl_at := atok |}).

(* ------------------------------------------------------------------ user tokens *)

Inductive inner :=
| InClaims (c : claims)                          (* plaintext is the claims JSON *)
| InSigned (a : alg) (key : bytes) (c : claims)  (* plaintext is a compact JWS *)
| InOther.                                       (* any other plaintext *)

Inductive jwe :=
| EEnc (kalg cenc : bytes) (key : bytes) (cty_jwt : bool) (i : inner)
| EUnparseable.

Definition s_direct : bytes := [x44; x49; x52; x45; x43; x54].
Definition s_a128cbc : bytes := [x41; x31; x32; x38; x43; x42; x43; x5f; x48; x53; x32; x35; x36].
Definition s_rdpgw : bytes := [x72; x64; x70; x67; x77].

Definition zero_claims : claims :=
  {| cl_iss := []; cl_sub := []; cl_exp := None; cl_nbf := None; cl_iat := None;
     cl_host := []; cl_ip := []; cl_at := [] |}.

(** [UserInfo]: returns the subject on success. *)
Definition user_info (enc_key sign_key : bytes) (now : Z) (tok : jwe) : option bytes :=
  let parsed : option claims :=
    if negb (blen enc_key =? 0)%N && negb (blen sign_key =? 0)%N then
      match tok with
      | EEnc kalg cenc key cty i =>
          if in_list kalg USER_KEY_ALGS_SIGNED && in_list cenc USER_CONTENT_ENC_SIGNED && cty
             && bytes_eqb key enc_key then
            match i with
            | InSigned a skey c =>
                if in_list (alg_name a) USER_SIG_ALGS && bytes_eqb skey sign_key then Some c else None
            | _ => None
            end
          else None
      | EUnparseable => None
      end
    else if (blen sign_key =? 0)%N then
      match tok with
      | EEnc kalg cenc key cty i =>
          if in_list kalg USER_KEY_ALGS_ENC && in_list cenc USER_CONTENT_ENC_ENC && bytes_eqb key enc_key then
            match i with InClaims c => Some c | _ => None end
          else None
      | EUnparseable => None
      end
    else Some zero_claims                         (* neither branch runs: claims stay zero *)
  in
  match parsed with
  | Some c => if validate USER_CHECK_ISSUER now c then Some (cl_sub c) else None
  | None => None
  end.

(** [GenerateUserToken] *)
Definition mint_user (enc_key sign_key : bytes) (now : Z) (user : bytes) : option jwe :=
  if (blen enc_key <? USER_MIN_ENC_KEY)%N then None
  else
    let c := {| cl_iss := USER_MINT_ISSUER; cl_sub := user; cl_exp := Some (now + Z.of_N USER_EXPIRY_SECONDS);
                cl_nbf := None; cl_iat := None; cl_host := []; cl_ip := []; cl_at := [] |} in
    Some (EEnc s_direct s_a128cbc enc_key true
            (if (0 <? blen sign_key)%N then InSigned HS256 sign_key c else InClaims c)).

(** [web.TokenInfo]: HTTP status. [token] = value of the first access_token
    parameter, [None] when absent. *)
Definition token_info_status (is_get : bool) (param : option bytes) (verifies : bool) : N :=
  if negb is_get then 405%N
  else match param with
       | None => 400%N
       | Some [] => 400%N
       | Some _ => if verifies then 200%N else 403%N
       end.
