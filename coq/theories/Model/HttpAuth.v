(** Transcription of the gateway endpoint's route table (cmd/rdpgw/main.go:214-267)
    and of the Basic / NTLM middlewares (cmd/rdpgw/web/basic.go, ntlm.go, mux.go).
    The authentication backend's verdict is an answer attached to the request.
    Definitions only. *)
From Coq Require Import List NArith Bool.
From Coq.Strings Require Import Byte.
From RDPGW Require Import Lib.Bytes Gen.Consts.
Import ListNotations.
Open Scope N_scope.

Record mechs := { m_openid : bool; m_kerberos : bool; m_local : bool; m_ntlm : bool }.

Definition s_NTLM : bytes := [x4e; x54; x4c; x4d].
Definition s_Negotiate : bytes := [x4e; x65; x67; x6f; x74; x69; x61; x74; x65].
Definition s_Basic : bytes := [x42; x61; x73; x69; x63].
Definition s_NTLM_sp : bytes := s_NTLM ++ [x20].
Definition s_Negotiate_sp : bytes := s_Negotiate ++ [x20].
Definition s_basic_challenge : bytes :=
  [x42; x61; x73; x69; x63; x20; x72; x65; x61; x6c; x6d; x3d; x22; x72; x65; x73; x74; x72; x69; x63; x74; x65; x64;
   x22; x2c; x20; x63; x68; x61; x72; x73; x65; x74; x3d; x22; x55; x54; x46; x2d; x38; x22].

(** What the authentication service answered (one gRPC call per request at most). *)
Inductive backend :=
| BkBasic (ok : bool)                    (* Authenticate: Authenticated *)
| BkNtlmChallenge (msg : bytes)          (* NTLM: NtlmMessage <> "" *)
| BkNtlmOk (user : bytes)                (* NTLM: Authenticated, Username *)
| BkNtlmNo                               (* NTLM: neither *)
| BkError                                (* the call failed *)
| BkKerberos (st : N).                   (* status the SPNEGO library answered with (never reaches the handler here) *)

Inductive dispatch_result :=
| Handler (user : option bytes)          (* the tunnel handler runs; [Some u]: identity set by the middleware *)
| Status (code : N) (challenges : list bytes)
| NotFound.

(** Which route the request takes: the first whose matcher accepts. [values]:
    all Authorization header values in order. *)
Inductive route := RGw | RNoAuthz | RNtlm | RBasic | RKerberos | RNone.

Definition any_contains (sub : bytes) (values : list bytes) : bool := existsb (contains_sub sub) values.
Definition first_value (values : list bytes) : bytes := match values with v :: _ => v | [] => [] end.

Definition openid_only (m : mechs) : bool :=
  m_openid m && negb (m_kerberos m) && negb (m_local m) && negb (m_ntlm m).

Definition pick_route (m : mechs) (values : list bytes) : route :=
  if openid_only m then RGw
  else if bytes_eqb (first_value values) [] then RNoAuthz
  else if m_ntlm m && (any_contains s_NTLM values || any_contains s_Negotiate values) then RNtlm
  else if m_local m && any_contains s_Basic values then RBasic
  else if m_kerberos m && any_contains s_Negotiate values then RKerberos
  else RNone.

(** The challenges of [AuthMux.SetAuthenticate], in registration order. *)
Definition challenges (m : mechs) : list bytes :=
  (if m_ntlm m then [s_NTLM; s_Negotiate] else [])
  ++ (if m_local m then [s_basic_challenge] else [])
  ++ (if m_kerberos m then [s_Negotiate] else []).

(** [basic]: what [r.BasicAuth()] decodes from the first header value. *)
Definition dispatch (m : mechs) (values : list bytes) (basic : option (bytes * bytes)) (bk : backend)
  : dispatch_result :=
  match pick_route m values with
  | RGw => Handler None
  | RNoAuthz => Status 401 (challenges m)
  | RNone => NotFound
  | RBasic =>
      match basic with
      | Some (u, _) =>
          match bk with
          | BkBasic true => Handler (Some u)
          | BkError => Status 500 []
          | _ => Status 401 [s_basic_challenge]
          end
      | None => Status 401 [s_basic_challenge]
      end
  | RNtlm =>
      let v := first_value values in
      if is_prefix s_NTLM_sp v || is_prefix s_Negotiate_sp v then
        let prefix := if is_prefix s_NTLM_sp v then s_NTLM_sp else s_Negotiate_sp in
        match bk with
        | BkNtlmChallenge msg => Status 401 [prefix ++ msg]
        | BkNtlmOk u => Handler (Some u)
        | BkError => Status 500 []
        | _ => Status 401 [s_NTLM; s_Negotiate]
        end
      else Status 401 [s_NTLM; s_Negotiate]
  | RKerberos =>
      match bk with BkKerberos st => Status st [s_Negotiate] | _ => Status 401 [s_Negotiate] end
  end.
