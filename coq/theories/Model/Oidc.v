(** Model of the OpenID login state of the gateway
    (cmd/rdpgw/web/oidc.go [Authenticated], [HandleCallback]; session.go;
    context.go [EnrichContext]) as a state machine over browser sessions. The
    session cookie is a sealed term: it is accepted iff it was sealed by this
    instance. The identity provider's behaviour is an answer attached to each
    callback. Definitions only. *)
From Coq Require Import List NArith ZArith Bool.
From Coq.Strings Require Import Byte.
From RDPGW Require Import Lib.Bytes Gen.Consts.
Import ListNotations.
Open Scope Z_scope.

(** What the identity provider (and token verification) answers for one callback. *)
Record cbenv := {
  cb_exchange_ok : bool;        (* the code is exchanged *)
  cb_has_idtoken : bool;        (* the token response carries an id_token *)
  cb_verify_ok : bool;          (* signature, issuer, audience, expiry verify *)
  cb_username : bytes;          (* first of preferred_username/unique_name/upn/username; [] if none *)
  cb_access_token : bytes }.

Inductive oop :=
| OConnect (sess : N) (t : Z)                           (* GET /connect with the session's cookie *)
| OCallback (sess : N) (state : N) (e : cbenv) (t : Z). (* GET /callback?state=..&code=.. *)

Inductive oout :=
| OutToIdP (state : N)          (* 302 to the provider, with a freshly issued state *)
| OutFile (user : bytes)        (* 200, connection file for this user *)
| OutCbRedirect                 (* 302 back to the stored URL: login complete *)
| OutCb400                      (* unknown / expired state *)
| OutCb500.                     (* any later failure *)

Record ident := { i_auth : bool; i_user : bytes; i_at : bytes }.
Definition anon : ident := {| i_auth := false; i_user := []; i_at := [] |}.

Record ostate := {
  o_next : N;                               (* next state value (random 16 bytes in the code) *)
  o_states : list (N * Z);                  (* state -> issue time *)
  o_sessions : list (N * ident) }.
Definition ostate0 : ostate := {| o_next := 1%N; o_states := []; o_sessions := [] |}.

Definition state_ttl : Z := Z.of_N oidc_CacheExpiration_SECONDS.

Fixpoint find_n {A} (k : N) (l : list (N * A)) : option A :=
  match l with [] => None | (k', v) :: l' => if (k =? k')%N then Some v else find_n k l' end.
Definition session_of (s : N) (st : ostate) : ident :=
  match find_n s (o_sessions st) with Some i => i | None => anon end.
Definition put_session (s : N) (i : ident) (st : ostate) : ostate :=
  {| o_next := o_next st; o_states := o_states st; o_sessions := (s, i) :: o_sessions st |}.

Definition state_valid (state : N) (t : Z) (st : ostate) : bool :=
  match find_n state (o_states st) with
  | Some t0 => t - t0 <? state_ttl
  | None => false
  end.

Definition ostep (st : ostate) (op : oop) : ostate * oout :=
  match op with
  | OConnect s t =>
      let i := session_of s st in
      if i_auth i then (st, OutFile (i_user i))
      else ({| o_next := (o_next st + 1)%N; o_states := (o_next st, t) :: o_states st;
               o_sessions := o_sessions st |}, OutToIdP (o_next st))
  | OCallback s state e t =>
      if negb (state_valid state t st) then (st, OutCb400)
      else if negb (cb_exchange_ok e) then (st, OutCb500)
      else if negb (cb_has_idtoken e) then (st, OutCb500)
      else if negb (cb_verify_ok e) then (st, OutCb500)
      else match cb_username e with
           | [] => (st, OutCb500)
           | u => (put_session s {| i_auth := true; i_user := u; i_at := cb_access_token e |} st, OutCbRedirect)
           end
  end.

Fixpoint orun (st : ostate) (ops : list oop) : list oout :=
  match ops with [] => [] | op :: rest => let '(st', o) := ostep st op in o :: orun st' rest end.
Fixpoint ofinal (st : ostate) (ops : list oop) : ostate :=
  match ops with [] => st | op :: rest => ofinal (fst (ostep st op)) rest end.
