(** Transcription of the MS-TSGU packet layer of package [protocol]:
    [createPacket], [readHeader], the one-shot defragmenter [readMessage] (as a
    per-read state machine), the four request parsers, the five response
    builders, [matchAuth] and [makeRedirectFlags]
    (cmd/rdpgw/protocol/common.go, process.go). Definitions only. *)
From Coq Require Import List NArith ZArith Bool.
From Coq.Strings Require Import Byte.
From RDPGW Require Import Lib.Bytes Gen.Consts Model.Utf16.
Import ListNotations.
Open Scope N_scope.

(* ---------------------------------------------------------------- framing *)

Definition create_packet (ty : N) (data : bytes) : bytes :=
  le16 ty ++ le16 0 ++ le32 (blen data + 8) ++ data.

Inductive hdr_result :=
| HShort                                   (* fewer than HEADER_MIN bytes *)
| HIncomplete (ty size : N)                (* len(data) < size *)
| HMalformed (ty size : N)                 (* size < header length *)
| HOk (ty size : N) (body : bytes).

(** [data[8:size]] *)
Definition slice_8_to (size : N) (data : bytes) : bytes :=
  firstn (N.to_nat size - 8) (skipn 8 data).

Definition read_header (data : bytes) : hdr_result :=
  if blen data <? HEADER_MIN then HShort
  else
    let ty := fst (take16 data) in
    let size := fst (take32 (skipn 4 data)) in
    if blen data <? size then HIncomplete ty size
    else if size <? 8 then HMalformed ty size
    else HOk ty size (slice_8_to size data).

(** State of one [readMessage] call between transport reads. *)
Inductive fstate := Fresh | Frag (buf : bytes).

Inductive fout :=
| FNeed (st : fstate)                      (* loop: wait for the next read *)
| FPacket (ty size : N) (body : bytes)     (* return int(pt), int(sz), msg, nil *)
| FError                                   (* "header is corrupted even after defragmenting" *)
| FMalformed.                              (* size field smaller than the header *)

Definition fstep (st : fstate) (data : bytes) : fout :=
  match st with
  | Fresh =>
      match read_header data with
      | HOk ty size body => FPacket ty size body
      | HMalformed _ _ => FMalformed
      | HShort | HIncomplete _ _ =>
          FNeed (Frag (firstn (N.to_nat READMSG_BUF) data))   (* index = copy(buf, pkt) *)
      end
  | Frag buf =>
      match read_header (buf ++ data) with
      | HOk ty size body => FPacket ty size body
      | _ => FError
      end
  end.

(* ---------------------------------------------------------------- parsers *)

Definition handshake_request (data : bytes) : N * N * N * N :=
  let '(major, r) := take8 data in
  let '(minor, r) := take8 r in
  let '(version, r) := take16 r in
  let '(ext, _) := take16 r in
  (major, minor, version, ext).

Definition tunnel_request (data : bytes) : N * bytes :=
  let '(caps, r) := take32 data in
  let '(fields, r) := take16 r in
  let r := skipn 2 r in                               (* r.Seek(2, io.SeekCurrent) *)
  if fields =? HTTP_TUNNEL_PACKET_FIELD_PAA_COOKIE then
    let '(size, r) := take16 r in
    let '(cookieB, _) := take_slice_read (N.to_nat size) r in
    (caps, decode_utf16 cookieB)
  else (caps, []).

Definition tunnel_auth_request (data : bytes) : bytes :=
  let '(size, r) := take16 data in
  let '(cl, _) := take_slice_binary (N.to_nat size) r in
  decode_utf16 cl.

Definition channel_request (data : bytes) : bytes * N :=
  let '(_, r) := take8 data in           (* resourcesSize *)
  let '(_, r) := take8 r in              (* alternative *)
  let '(port, r) := take16 r in
  let '(_, r) := take16 r in             (* protocol *)
  let '(nameSize, r) := take16 r in
  let '(name, _) := take_slice_binary (N.to_nat nameSize) r in
  (decode_utf16 name, port).

(** [receive]: the declared payload of a DATA packet as written to the host:
    the first [cblen] bytes after the length field, or the bytes carried when
    fewer are present (nothing is invented). *)
Definition receive_payload (data : bytes) : bytes :=
  let '(cblen, r) := take16 data in
  firstn (N.to_nat cblen) r.

(* --------------------------------------------------------------- builders *)

Definition handshake_response (major minor caps code : N) : bytes :=
  create_packet PKT_TYPE_HANDSHAKE_RESPONSE
    (le32 code ++ [n2b major; n2b minor] ++ le16 0 ++ le16 caps).

Definition tunnel_response (code : N) : bytes :=
  create_packet PKT_TYPE_TUNNEL_RESPONSE
    (le16 0 ++ le32 code
       ++ le16 (N.lor HTTP_TUNNEL_RESPONSE_FIELD_TUNNEL_ID HTTP_TUNNEL_RESPONSE_FIELD_CAPS)
       ++ le16 0 ++ le32 TUNNEL_ID ++ le32 HTTP_CAPABILITY_IDLE_TIMEOUT).

Record redirect_flags := {
  rf_clipboard : bool; rf_port : bool; rf_drive : bool; rf_printer : bool;
  rf_pnp : bool; rf_disable_all : bool; rf_enable_all : bool }.

Definition make_redirect_flags (f : redirect_flags) : N :=
  if rf_disable_all f then HTTP_TUNNEL_REDIR_DISABLE_ALL
  else if rf_enable_all f then HTTP_TUNNEL_REDIR_ENABLE_ALL
  else
    let r := 0 in
    let r := if rf_port f then r else N.lor r HTTP_TUNNEL_REDIR_DISABLE_PORT in
    let r := if rf_clipboard f then r else N.lor r HTTP_TUNNEL_REDIR_DISABLE_CLIPBOARD in
    let r := if rf_drive f then r else N.lor r HTTP_TUNNEL_REDIR_DISABLE_DRIVE in
    let r := if rf_pnp f then r else N.lor r HTTP_TUNNEL_REDIR_DISABLE_PNP in
    let r := if rf_printer f then r else N.lor r HTTP_TUNNEL_REDIR_DISABLE_PRINTER in
    r.

(** [if IdleTimeout < 0 { IdleTimeout = 0 }; uint32(IdleTimeout)] *)
Definition idle_field (idle : Z) : N :=
  if (idle <? 0)%Z then 0 else Z.to_N (idle mod 4294967296)%Z.

Definition tunnel_auth_response (f : redirect_flags) (idle : Z) (code : N) : bytes :=
  create_packet PKT_TYPE_TUNNEL_AUTH_RESPONSE
    (le32 code
       ++ le16 (N.lor HTTP_TUNNEL_AUTH_RESPONSE_FIELD_REDIR_FLAGS
                      HTTP_TUNNEL_AUTH_RESPONSE_FIELD_IDLE_TIMEOUT)
       ++ le16 0 ++ le32 (make_redirect_flags f) ++ le32 (idle_field idle)).

Definition channel_response (code : N) : bytes :=
  create_packet PKT_TYPE_CHANNEL_RESPONSE
    (le32 code ++ le16 HTTP_CHANNEL_RESPONSE_FIELD_CHANNELID ++ le16 0 ++ le32 CHANNEL_ID).

Definition channel_close_response (code : N) : bytes :=
  create_packet PKT_TYPE_CLOSE_CHANNEL_RESPONSE
    (le32 code ++ le16 HTTP_CHANNEL_RESPONSE_FIELD_CHANNELID ++ le16 0 ++ le32 CLOSE_CHANNEL_ID).

(** [forward]: one host read of [n] bytes becomes one DATA packet. *)
Definition data_packet (chunk : bytes) : bytes :=
  create_packet PKT_TYPE_DATA (le16 (blen chunk) ++ chunk).

(* ------------------------------------------------------------- matchAuth *)

Definition server_caps (smartcard token : bool) : N :=
  N.lor (if smartcard then HTTP_EXTENDED_AUTH_SC else 0)
        (if token then HTTP_EXTENDED_AUTH_PAA else 0).

Definition match_auth (smartcard token : bool) (client : N) : option N :=
  let caps := server_caps smartcard token in
  if (N.land caps client =? 0) && (0 <? client) then None
  else if (0 <? caps) && (client =? 0) then None
  else Some caps.
