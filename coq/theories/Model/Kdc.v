(** The KDC proxy (cmd/rdpgw/kdcproxy/proxy.go): request validation, the DER
    codec of KDC-PROXY-MESSAGE restricted to the shape the gateway produces and
    accepts (definite minimal lengths; SEQUENCE { [0] EXPLICIT OCTET STRING,
    [1] IMPLICIT string OPTIONAL, ... }), and the fan-out to the KDCs of the
    realm. Definitions only. *)
From Coq Require Import List NArith ZArith Bool.
From Coq.Strings Require Import Byte.
From RDPGW Require Import Lib.Bytes Gen.Consts.
Import ListNotations.
Open Scope N_scope.

(* ---- DER ---- *)
Definition der_len (n : N) : bytes :=
  if n <? 128 then [n2b n]
  else if n <? 256 then [x81; n2b n]
  else if n <? 65536 then [x82; n2b (n / 256); n2b n]
  else [x83; n2b (n / 65536); n2b (n / 256); n2b n].

Definition tlv (tag : byte) (content : bytes) : bytes := tag :: der_len (blen content) ++ content.

(** Strict length parser: definite, minimal. *)
Definition parse_len (r : bytes) : option (N * bytes) :=
  match r with
  | a :: rest =>
      let v := b2n a in
      if v <? 128 then Some (v, rest)
      else if v =? 129 then
        match rest with b :: r' => if 128 <=? b2n b then Some (b2n b, r') else None | _ => None end
      else if v =? 130 then
        match rest with
        | b :: c :: r' => let n := 256 * b2n b + b2n c in if 256 <=? n then Some (n, r') else None
        | _ => None
        end
      else if v =? 131 then
        match rest with
        | b :: c :: d :: r' => let n := 65536 * b2n b + 256 * b2n c + b2n d in if 65536 <=? n then Some (n, r') else None
        | _ => None
        end
      else None
  | [] => None
  end.

(** One TLV with the expected tag: content and what follows. *)
Definition parse_tlv (tag : byte) (r : bytes) : option (bytes * bytes) :=
  match r with
  | t :: rest =>
      if Byte.eqb t tag then
        match parse_len rest with
        | Some (n, r') =>
            if Nat.leb (N.to_nat n) (length r') then Some (firstn (N.to_nat n) r', skipn (N.to_nat n) r') else None
        | None => None
        end
      else None
  | [] => None
  end.

(** [encode]: the reply wrapped as KDC-PROXY-MESSAGE { kerb-message [0] }. *)
Definition encode_msg (message : bytes) : bytes := tlv x30 (tlv xa0 (tlv x04 message)).

(** A request as a client built with the same codec sends it. *)
Definition encode_req (message realm : bytes) : bytes :=
  tlv x30 (tlv xa0 (tlv x04 message) ++ match realm with [] => [] | _ => tlv x81 realm end).

(** [decode] + the trailing-data check: message and realm ("" when absent). *)
Definition decode_req (data : bytes) : option (bytes * bytes) :=
  match parse_tlv x30 data with
  | Some (seq, []) =>
      match parse_tlv xa0 seq with
      | Some (inner, after) =>
          match parse_tlv x04 inner with
          | Some (message, []) =>
              match parse_tlv x81 after with
              | Some (realm, _) => Some (message, realm)
              | None => Some (message, [])
              end
          | _ => None
          end
      | None => None
      end
  | _ => None
  end.

(* ---- request validation ---- *)
Inductive http_method := MPost | MOtherMethod.

(** [content_length]: the request's declared length ([None] = absent / chunked). *)
Definition validate (m : http_method) (content_length : option N) : option N :=
  match m with
  | MOtherMethod => Some 405
  | MPost =>
      match content_length with
      | None => Some 411
      | Some n => if kdc_maxLength <? n then Some 413 else None
      end
  end.

(* ---- the fan-out ---- *)
(** What one KDC does with the request. *)
Inductive kdc_behaviour :=
| KReply (reply : bytes)        (* a complete reply (with its length prefix on TCP) *)
| KPartial                      (* closes or stalls before the reply is complete *)
| KSilent                       (* accepts and never answers *)
| KRefuse.                      (* connection refused *)

Inductive proto := Tcp | Udp.
Record kdc := { k_proto : proto; k_does : kdc_behaviour }.

(** Bytes sent to a KDC: the embedded message; without its 4-byte length prefix over UDP. *)
Definition to_kdc (p : proto) (message : bytes) : option bytes :=
  match p with
  | Tcp => Some message
  | Udp =>
      (* a datagram carries at most 65507 bytes: a larger message cannot be sent over UDP *)
      if Nat.leb 4 (length message) && (blen message - 4 <=? 65507) then Some (skipn 4 message) else None
  end.

(** The reply as handed back by one KDC connection (UDP replies get the 4-byte prefix). *)
Definition from_kdc (k : kdc) (message : bytes) : option bytes :=
  match to_kdc (k_proto k) message with
  | None => None
  | Some _ =>
      match k_does k with
      | KReply r => Some (match k_proto k with Tcp => r | Udp => le32_be (blen r) ++ r end)
      | _ => None
      end
  end.

(** All KDCs are asked at once; a reply wins over no reply (the harness lets at
    most one KDC reply, or all reply the same, so "first" is not modelled). *)
Fixpoint first_reply (kdcs : list kdc) (message : bytes) : option bytes :=
  match kdcs with
  | [] => None
  | k :: rest => match from_kdc k message with Some r => Some r | None => first_reply rest message end
  end.

Inductive proxy_result := PStatus (code : N) | PReply (body : bytes).

(** The handler after validation: [kdcs_of_realm]: the KDCs configured for the
    requested (or default) realm, [None] when the realm is unknown. *)
Definition handle (data : bytes) (kdcs_of_realm : bytes -> option (list kdc)) : proxy_result :=
  match decode_req data with
  | None => PStatus 400
  | Some (message, realm) =>
      match kdcs_of_realm realm with
      | None => PStatus 503
      | Some kdcs =>
          match first_reply kdcs message with
          | Some r => PReply (encode_msg r)
          | None => PStatus 503
          end
      end
  end.

(** Upper bound, in seconds, on the time the fan-out waits: every connection
    carries the same deadline and they are awaited in parallel. *)
Definition wait_bound (kdcs : list kdc) : N := match kdcs with [] => 0 | _ => kdc_timeout_SECONDS end.
