(** C10: the index and slice operations of the client-facing byte handlers as
    *partial* operations.  Go checks every [x[i]] and [x[lo:hi]] at run time and
    panics when the index is out of range; a Gallina function cannot panic, so
    the checked operations return [option] and the handlers that use them return
    [Panic] where Go would.

    Each handler below takes the presence of its guards as booleans.  The
    booleans are computed from the table gofacts regenerates from the source
    (Gen/Facts.v, the SITES tables): a guard that is not in the source is not in the
    model either, and the model panics exactly where the code would.

    [go_slice] bounds a slice by the *length* of its operand; Go bounds it by the
    capacity, which is at least the length, so an in-range result here is in
    range there (the converse is not claimed). Definitions only. *)
From Coq Require Import List NArith Bool Arith.
From Coq.Strings Require Import Byte.
From RDPGW Require Import Lib.Bytes Gen.Consts Gen.Facts Model.Utf16 Model.Packets Model.Processor Model.System.
Import ListNotations.
Open Scope N_scope.

Inductive res (A : Type) := Ok (a : A) | Panic.
Arguments Ok {A} a.
Arguments Panic {A}.

Definition go_slice {A} (l : list A) (lo hi : nat) : option (list A) :=
  if Nat.leb lo hi && Nat.leb hi (length l) then Some (firstn (hi - lo) (skipn lo l)) else None.
Definition go_index {A} (l : list A) (i : nat) : option A := nth_error l i.

(* ------------------------------------------------ guards present in the source *)

Definition site_table := list (bytes * list bytes).

(** guards of the first site whose expression text is [e] ([None]: no such site) *)
Fixpoint site_guards (tbl : site_table) (e : bytes) : option (list bytes) :=
  match tbl with
  | [] => None
  | (e', gs) :: rest => if bytes_eqb e e' then Some gs else site_guards rest e
  end.

Definition guarded (tbl : site_table) (e g : bytes) : bool :=
  match site_guards tbl e with
  | Some gs => existsb (bytes_eqb g) gs
  | None => true                         (* the site does not exist: nothing to guard *)
  end.

Definition has_site (tbl : site_table) (e : bytes) : bool :=
  match site_guards tbl e with Some _ => true | None => false end.

(** every site of a table is one of the listed expressions *)
Definition only_sites (tbl : site_table) (known : list bytes) : bool :=
  forallb (fun s => existsb (bytes_eqb (fst s)) known) tbl.

(* ---------------------------------------------------------------- readHeader *)

(** [readHeader] with its three guards switchable:
      g_short : len(data) < 8          -> "header too short"
      g_incomplete : len(data) < int(size) -> data[8:], "data incomplete"
      g_small : size < 8               -> errMalformed
    and the two slice sites [data[8:]] and [data[8:size]] checked. *)
Definition read_header_c (g_short g_incomplete g_small : bool) (data : bytes) : res hdr_result :=
  if g_short && (blen data <? HEADER_MIN) then Ok HShort
  else
    let ty := fst (take16 data) in
    let size := fst (take32 (skipn 4 data)) in
    if g_incomplete && (blen data <? size) then
      match go_slice data 8 (length data) with
      | Some _ => Ok (HIncomplete ty size)
      | None => Panic
      end
    else if g_small && (size <? 8) then Ok (HMalformed ty size)
    else
      match go_slice data 8 (N.to_nat size) with
      | Some body => Ok (HOk ty size body)
      | None => Panic
      end.

Definition s_data_8_ : bytes := [x64; x61; x74; x61; x5b; x38; x3a; x5d].                         (* data[8:] *)
Definition s_data_8_size : bytes := [x64; x61; x74; x61; x5b; x38; x3a; x73; x69; x7a; x65; x5d]. (* data[8:size] *)
Definition s_g_short : bytes := [x21; x6c; x65; x6e; x28; x64; x61; x74; x61; x29; x3c; x38].     (* !len(data)<8 *)
Definition s_g_incomplete : bytes :=                                                              (* !len(data)<int(size) *)
  [x21; x6c; x65; x6e; x28; x64; x61; x74; x61; x29; x3c; x69; x6e; x74; x28; x73; x69; x7a; x65; x29].
Definition s_g_small : bytes := [x21; x73; x69; x7a; x65; x3c; x38].                              (* !size<8 *)

(** [readHeader] as the source has it now. *)
Definition read_header_src (data : bytes) : res hdr_result :=
  read_header_c (guarded SITES_readHeader s_data_8_size s_g_short)
                (guarded SITES_readHeader s_data_8_size s_g_incomplete)
                (guarded SITES_readHeader s_data_8_size s_g_small) data.

(* --------------------------------------------------------------- DecodeUTF16 *)

(** The decoding loop [for i := 0; i < lb; i += 2 { b[i], b[i+1] }]; [g_even]
    is the [len(b)%2 != 0] early return. *)
Fixpoint units_c (b : bytes) (i fuel : nat) : res bytes :=
  match fuel with
  | O => Ok []
  | S fuel' =>
      if Nat.ltb i (length b) then
        match go_index b i, go_index b (i + 1) with
        | Some lo, Some hi =>
            match units_c b (i + 2) fuel' with
            | Ok r => Ok (encode_unit (b2n lo + 256 * b2n hi) ++ r)
            | Panic => Panic
            end
        | _, _ => Panic
        end
      else Ok []
  end.

Definition decode_utf16_c (g_even : bool) (b : bytes) : res bytes :=
  if g_even && Nat.odd (length b) then Ok []
  else
    match units_c b 0 (S (length b)) with
    | Ok u => Ok (strip_one_nul u)
    | Panic => Panic
    end.

Definition s_b_i1 : bytes := [x62; x5b; x69; x2b; x31; x5d].                                      (* b[i+1] *)
Definition s_g_even : bytes := [x21; x6c; x65; x6e; x28; x62; x29; x25; x32; x21; x3d; x30].      (* !len(b)%2!=0 *)
Definition s_bret_last : bytes :=                                                                 (* bret[len(bret)-1] *)
  [x62; x72; x65; x74; x5b; x6c; x65; x6e; x28; x62; x72; x65; x74; x29; x2d; x31; x5d].
Definition s_g_nonempty : bytes := [x6c; x65; x6e; x28; x62; x72; x65; x74; x29; x3e; x30].       (* len(bret)>0 *)

Definition decode_utf16_src (b : bytes) : res bytes :=
  decode_utf16_c (guarded SITES_DecodeUTF16 s_b_i1 s_g_even) b.

(* ------------------------------------------------------------ getAuthPayload *)

Inductive auth_mode := AmNtlm | AmNegotiate | AmNone.

Definition s_NTLM_ : bytes := [x4e; x54; x4c; x4d; x20].
Definition s_Negotiate_ : bytes := [x4e; x65; x67; x6f; x74; x69; x61; x74; x65; x20].

(** [g_ntlm]/[g_neg]: the test in front of each slice is [strings.HasPrefix]
    (true) or something weaker that does not bound the length (false: modelled as
    [strings.Contains], what the pinned revision had). *)
Definition auth_payload_c (g_ntlm g_neg : bool) (v : bytes) : res (bytes * auth_mode) :=
  let test (g : bool) (p : bytes) := if g then is_prefix p v else contains_sub (firstn (length p - 1) p) v in
  if test g_ntlm s_NTLM_ then
    match go_slice v 5 (length v) with Some p => Ok (p, AmNtlm) | None => Panic end
  else if test g_neg s_Negotiate_ then
    match go_slice v 10 (length v) with Some p => Ok (p, AmNegotiate) | None => Panic end
  else Ok ([], AmNone).

Definition s_auth_5 : bytes :=                                                                    (* authorisationEncoded[5:] *)
  [x61; x75; x74; x68; x6f; x72; x69; x73; x61; x74; x69; x6f; x6e; x45; x6e; x63; x6f; x64; x65; x64; x5b; x35; x3a; x5d].
Definition s_auth_10 : bytes :=                                                                   (* authorisationEncoded[10:] *)
  [x61; x75; x74; x68; x6f; x72; x69; x73; x61; x74; x69; x6f; x6e; x45; x6e; x63; x6f; x64; x65; x64; x5b; x31; x30; x3a; x5d].
Definition s_g_prefix_ntlm : bytes :=               (* strings.HasPrefix(authorisationEncoded,"NTLM ") *)
  [x73; x74; x72; x69; x6e; x67; x73; x2e; x48; x61; x73; x50; x72; x65; x66; x69; x78; x28;
   x61; x75; x74; x68; x6f; x72; x69; x73; x61; x74; x69; x6f; x6e; x45; x6e; x63; x6f; x64; x65; x64; x2c;
   x22; x4e; x54; x4c; x4d; x20; x22; x29].
Definition s_g_prefix_neg : bytes :=                (* strings.HasPrefix(authorisationEncoded,"Negotiate ") *)
  [x73; x74; x72; x69; x6e; x67; x73; x2e; x48; x61; x73; x50; x72; x65; x66; x69; x78; x28;
   x61; x75; x74; x68; x6f; x72; x69; x73; x61; x74; x69; x6f; x6e; x45; x6e; x63; x6f; x64; x65; x64; x2c;
   x22; x4e; x65; x67; x6f; x74; x69; x61; x74; x65; x20; x22; x29].

Definition auth_payload_src (v : bytes) : res (bytes * auth_mode) :=
  auth_payload_c (guarded SITES_getAuthPayload s_auth_5 s_g_prefix_ntlm)
                 (guarded SITES_getAuthPayload s_auth_10 s_g_prefix_neg) v.

(* ------------------------------------------------------- KDC proxy, UDP leg *)

(** [conn.Write(data[4:])] on the UDP leg; [g_len4] is the [len(data) < 4]
    skip in front of it. [None]: this KDC is skipped. *)
Definition udp_payload_c (g_len4 : bool) (data : bytes) : res (option bytes) :=
  if g_len4 && Nat.ltb (length data) 4 then Ok None
  else match go_slice data 4 (length data) with Some p => Ok (Some p) | None => Panic end.

Definition s_data_4_ : bytes := [x64; x61; x74; x61; x5b; x34; x3a; x5d].                         (* data[4:] *)
Definition s_g_len4 : bytes :=                      (* !kdcs[i].Proto=="udp"&&len(data)<4 *)
  [x21; x6b; x64; x63; x73; x5b; x69; x5d; x2e; x50; x72; x6f; x74; x6f; x3d; x3d; x22; x75; x64; x70; x22;
   x26; x26; x6c; x65; x6e; x28; x64; x61; x74; x61; x29; x3c; x34].

Definition udp_payload_src (data : bytes) : res (option bytes) :=
  udp_payload_c (guarded SITES_kdcForward s_data_4_ s_g_len4) data.

(* ------------------------------------------------- sites that need no guard *)

(** Slices whose bound is the count the producing call itself returned
    ([n, err := Read(buf)] then [buf[:n]]; [copy] then [buf[:index]]), single
    element scratch buffers, and indices produced by [range]. They are listed so
    that a *new* slice expression in these functions is noticed. *)
Definition KNOWN_SITES : list bytes := [
  s_data_8_; s_data_8_size;
  [x70; x6b; x74; x5b; x3a; x73; x69; x7a; x65; x5d];                        (* pkt[:size]   size from ReadPacket *)
  [x62; x75; x66; x5b; x3a; x69; x6e; x64; x65; x78; x5d];                   (* buf[:index]  index from copy *)
  [x70; x6b; x74; x5b; x3a; x6e; x5d];                                       (* pkt[:n]      n from io.ReadFull *)
  [x62; x75; x66; x5b; x3a; x6e; x5d];                                       (* buf[:n]      n from Read *)
  [x75; x31; x36; x73; x5b; x30; x5d];                                       (* u16s[0]      make([]uint16, 1) *)
  [x62; x5b; x69; x5d];                                                      (* b[i]         i < lb *)
  s_b_i1;
  [x72; x5b; x30; x5d];                                                      (* r[0]         utf16.Decode of one unit *)
  [x62; x38; x62; x75; x66; x5b; x3a; x6e; x5d];                             (* b8buf[:n]    n <= 4 from EncodeRune *)
  s_bret_last;
  [x62; x72; x65; x74; x5b; x3a; x6c; x65; x6e; x28; x62; x72; x65; x74; x29; x2d; x31; x5d]; (* bret[:len(bret)-1] *)
  s_auth_5; s_auth_10;
  [x75; x64; x70; x4b; x64; x63; x73; x5b; x69; x5d];                        (* udpKdcs[i]   map lookup *)
  [x74; x63; x70; x4b; x64; x63; x73; x5b; x69; x5d];                        (* tcpKdcs[i]   map lookup *)
  [x6b; x64; x63; x73; x5b; x69; x5d];                                       (* kdcs[i]      i from range kdcs *)
  [x6b; x64; x63; x73; x5b; x6b; x64; x63; x5d];                             (* kdcs[kdc]    kdc from range kdcs *)
  s_data_4_;
  [x72; x65; x73; x70; x5b; x34; x3a; x5d]                                   (* resp[4:]     make([]byte, 4+n) *)
].

Definition ALL_SITES : site_table :=
  SITES_readHeader ++ SITES_readMessage ++ SITES_receive ++ SITES_forward ++ SITES_DecodeUTF16
  ++ SITES_getAuthPayload ++ SITES_kdcForward ++ SITES_kdcAwaitReply ++ SITES_legacyReadPacket.

(* -------------------------------------------------------- legacy attachment *)

(** Final gateway state of an operation sequence. *)
Fixpoint gfinal (c : cfg) (g : gstate) (ops : list gop) : gstate :=
  match ops with
  | [] => g
  | op :: rest => gfinal c (fst (gstep c g op)) rest
  end.

(** The inbound handler dereferences the tunnel's outbound transport
    ([s.transportOut]): it must exist whenever an inbound channel is attached. *)
Definition attached_ok (g : gstate) : Prop :=
  forall id t, gget id g = Some t -> g_in t = true -> g_out t = true.
