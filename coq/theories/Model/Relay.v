(** Transcription of the two relay directions (cmd/rdpgw/protocol/common.go
    [forward], [receive]) as a state machine over interleaved operations.
    Definitions only. *)
From Coq Require Import List NArith Bool.
From Coq.Strings Require Import Byte.
From RDPGW Require Import Lib.Bytes Gen.Consts Model.Packets.
Import ListNotations.
Open Scope N_scope.

Inductive rop :=
| ClientData (body : bytes)     (* a DATA packet body arrived from the client *)
| HostRead (chunk : bytes).     (* in.Read(buf) returned this chunk (1..FORWARD_BUF bytes) *)

Record rstate := { to_host : bytes; to_client : list bytes }.
Definition rstate0 : rstate := {| to_host := []; to_client := [] |}.

Definition relay_step (st : rstate) (op : rop) : rstate :=
  match op with
  | ClientData body => {| to_host := to_host st ++ receive_payload body; to_client := to_client st |}
  | HostRead chunk => {| to_host := to_host st; to_client := to_client st ++ [data_packet chunk] |}
  end.

Definition relay (ops : list rop) : rstate := fold_left relay_step ops rstate0.

Definition client_bodies (ops : list rop) : list bytes :=
  flat_map (fun o => match o with ClientData b => [b] | _ => [] end) ops.
Definition host_chunks (ops : list rop) : list bytes :=
  flat_map (fun o => match o with HostRead c => [c] | _ => [] end) ops.

(** How [forward]'s read loop cuts one write of the host into chunks when the
    connection hands over everything that was written (net.Pipe semantics). *)
Fixpoint split_every (fuel : nat) (n : nat) (l : bytes) : list bytes :=
  match fuel with
  | O => []
  | S fuel' =>
      match l with
      | [] => []
      | _ => firstn n l :: split_every fuel' n (skipn n l)
      end
  end.
Definition forward_chunks (writes : list bytes) : list bytes :=
  flat_map (fun w => split_every (S (length w)) (N.to_nat FORWARD_BUF) w) writes.
