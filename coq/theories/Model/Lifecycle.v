(** Resources of one tunnel and what the handlers release when the packet loop
    returns, as derived from the regenerated cleanup facts (Gen/Facts.v: deferred
    calls of the two transport handlers, calls of Tunnel.Close, deferred calls of
    the relay goroutine). Definitions only. *)
From Coq Require Import List NArith ZArith Bool.
From Coq.Strings Require Import Byte String.
From RDPGW Require Import Lib.Bytes Gen.Facts Model.Processor.
Import ListNotations.

Definition has (s : string) (l : list bytes) : bool := existsb (bytes_eqb (list_byte_of_string s)) l.

Inductive transport := TWs | TLegacy.

Record res := {
  backend_open : bool;       (* connection to the remote desktop host *)
  relay_running : bool;      (* goroutine relaying host -> client *)
  in_open : bool;            (* client-facing inbound connection *)
  out_open : bool;           (* client-facing outbound connection (the same one for websocket) *)
  registered : bool;         (* entry in the connection registry *)
  gauge : Z }.               (* contribution to the transport's connection gauge *)

Record cleanup := {
  cl_in : bool; cl_out : bool; cl_backend : bool; cl_unregister : bool; cl_gauge : bool;
  cl_relay_stops : bool }.   (* the relay exits (and closes the backend) once its read fails *)

Definition tunnel_close_backend : bool := has "t.rwc.Close()" TUNNEL_CLOSE_CALLS.
Definition tunnel_close_out : bool := has "t.transportOut.Close()" TUNNEL_CLOSE_CALLS.

Definition cleanup_of (tr : transport) : cleanup :=
  match tr with
  | TWs =>
      {| cl_in := has "inout.Close()" WS_DEFERS || has "conn.Close()" UPGRADE_DEFERS;
         cl_out := has "inout.Close()" WS_DEFERS || has "conn.Close()" UPGRADE_DEFERS
                   || (has "t.Close()" WS_DEFERS && tunnel_close_out);
         cl_backend := has "t.Close()" WS_DEFERS && tunnel_close_backend;
         cl_unregister := has "RemoveTunnel(t)" WS_DEFERS;
         cl_gauge := has "websocketConnections.Dec()" WS_DEFERS;
         cl_relay_stops := has "in.Close()" FORWARD_DEFERS |}
  | TLegacy =>
      {| cl_in := has "in.Close()" LEGACY_DEFERS;
         cl_out := has "t.Close()" LEGACY_DEFERS && tunnel_close_out;
         cl_backend := has "t.Close()" LEGACY_DEFERS && tunnel_close_backend;
         cl_unregister := has "RemoveTunnel(t)" LEGACY_DEFERS;
         cl_gauge := has "legacyConnections.Dec()" LEGACY_DEFERS;
         cl_relay_stops := has "in.Close()" FORWARD_DEFERS |}
  end.

(** The handler returns: deferred calls run; then the relay's read fails iff the
    backend connection was closed. *)
Definition after_return (c : cleanup) (r : res) : res :=
  let backend' := backend_open r && negb (cl_backend c) in
  {| backend_open := backend';
     relay_running := relay_running r && (backend' || negb (cl_relay_stops c));
     in_open := in_open r && negb (cl_in c);
     out_open := out_open r && negb (cl_out c);
     registered := registered r && negb (cl_unregister c);
     gauge := if cl_gauge c then (gauge r - 1)%Z else gauge r |}.

Definition released (r : res) : Prop :=
  backend_open r = false /\ relay_running r = false /\ in_open r = false /\ out_open r = false /\
  registered r = false /\ gauge r = 0%Z.

(** Resources a running tunnel holds (the handler incremented the gauge once and
    registered the tunnel; the backend and the relay exist after channel creation). *)
Definition holding (with_backend : bool) : res :=
  {| backend_open := with_backend; relay_running := with_backend; in_open := true; out_open := true;
     registered := true; gauge := 1 |}.

(** The ways a tunnel's client side ends, as inputs of the processor model. *)
Inductive end_cause := ByClose | ByOutOfOrder | ByUnframeable | ByClientDrop.
