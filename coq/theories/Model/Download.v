(** Transcription of the connection-file endpoint (cmd/rdpgw/web/web.go
    [getHost], [HandleDownload]) on top of the token and policy models.
    Definitions only. *)
From Coq Require Import List NArith ZArith Bool.
From Coq.Strings Require Import Byte.
From RDPGW Require Import Lib.Bytes Gen.Consts Model.Policy Model.Token.
Import ListNotations.
Open Scope Z_scope.

(** The query token of 'signed' selection ([security.QueryInfo]): symbolic JWS
    whose subject is the host. *)
Definition query_info (query_key issuer : bytes) (now : Z) (tok : jws) : option bytes :=
  match tok with
  | JCompact a key c =>
      if in_list (alg_name a) QUERY_SIG_ALGS && bytes_eqb key query_key && validate issuer now c
      then Some (cl_sub c) else None
  | _ => None
  end.

Inductive host_result := HostOk (h : bytes) | HostErr.     (* error -> 400 *)

(** [getHost]. [param]: first value of the "host" query parameter, if present;
    [qtok]: that value seen as a token (for 'signed'); [pick]: the index the
    random picker chose. *)
Definition get_host (mode : bytes) (hosts : list bytes) (param : option bytes) (qhost : option bytes)
           (pick : nat) : host_result :=
  let random := match nth_error hosts pick with Some h => HostOk h | None => HostErr end in
  if bytes_eqb mode s_roundrobin then random
  else if bytes_eqb mode s_signed then
    match param with
    | None => HostErr
    | Some _ =>
        match qhost with
        | None => HostErr
        | Some h => if in_list h hosts then HostOk h else HostErr
        end
    end
  else if bytes_eqb mode s_unsigned then
    match param with
    | None => HostErr
    | Some p => if in_list p hosts then HostOk p else HostErr
    end
  else if bytes_eqb mode s_any then
    match param with None => HostErr | Some p => HostOk p end
  else random.

(** [strings.SplitN(user, "@", 2)] *)
Fixpoint split_at (s : bytes) : bytes * option bytes :=
  match s with
  | [] => ([], None)
  | c :: s' => if Byte.eqb c x40 then ([], Some s')
               else let '(a, r) := split_at s' in (c :: a, r)
  end.

Definition s_username_ph : bytes := [x7b; x7b; x20; x75; x73; x65; x72; x6e; x61; x6d; x65; x20; x7d; x7d]. (* "{{ username }}" *)
Definition s_token_ph : bytes := [x7b; x7b; x20; x74; x6f; x6b; x65; x6e; x20; x7d; x7d].                 (* "{{ token }}" *)

Record dl_cfg := {
  d_mode : bytes; d_hosts : list bytes;
  d_split : bool; d_template : bytes; d_nousername : bool;
  d_gateway : bytes;                        (* host part of the gateway address *)
  d_signing_key : bytes }.

Record dl_req := {
  q_authenticated : bool; q_user : bytes; q_access_token : bytes; q_client_ip : bytes;
  q_param : option bytes; q_qhost : option bytes; q_pick : nat }.

(** What the issued file binds together. *)
Record dl_file := {
  f_address : bytes; f_username : option bytes; f_domain : option bytes;
  f_gateway : bytes; f_token : jws }.

Inductive dl_result := Dl500 | Dl400 | DlFile (f : dl_file).

Definition download (c : dl_cfg) (now : Z) (r : dl_req) : dl_result :=
  if negb (q_authenticated r) then Dl500
  else
    match get_host (d_mode c) (d_hosts c) (q_param r) (q_qhost r) (q_pick r) with
    | HostErr => Dl400
    | HostOk h0 =>
        let host := replace_first HOST_PLACEHOLDER (q_user r) h0 in
        let '(user, domain) :=
          if d_split c then (let '(u, d) := split_at (q_user r) in (u, match d with Some x => x | None => [] end))
          else (q_user r, []) in
        let render := match d_template c with
                      | [] => Some user
                      | t => let rd := replace_first s_username_ph user t in
                             if bytes_eqb rd t then None else Some rd
                      end in
        match render with
        | None => Dl500
        | Some rd =>
            match mint_paa (d_signing_key c) now user host (q_client_ip r) (q_access_token r) with
            | None => Dl500
            | Some tok =>
                DlFile {| f_address := host;
                          f_username := if d_nousername c then None else Some rd;
                          f_domain := if d_nousername c then None else match domain with [] => None | d => Some d end;
                          f_gateway := d_gateway c; f_token := tok |}
            end
        end
    end.
