(** Transcription of [Processor.Process] (cmd/rdpgw/protocol/process.go:44-181)
    over the framing machine of [Packets]: one tunnel, driven by a list of
    transport reads. Everything the code asks of its environment (cookie check,
    client-name check, host policy, outcome of the dial) is an answer attached
    to the read that completes the packet, so a statement quantified over all
    read lists is quantified over every environment. Definitions only. *)
From Coq Require Import List NArith ZArith Bool.
From Coq.Strings Require Import Byte.
From RDPGW Require Import Lib.Bytes Gen.Consts Model.Utf16 Model.Packets.
Import ListNotations.
Open Scope N_scope.

Record cfg := {
  c_token_auth : bool;      (* Gateway.TokenAuth *)
  c_smartcard : bool;       (* Gateway.SmartCardAuth *)
  c_cookie_cb : bool;       (* Gateway.CheckPAACookie != nil *)
  c_name_cb : bool;         (* Gateway.CheckClientName != nil *)
  c_host_cb : bool;         (* Gateway.CheckHost != nil *)
  c_redir : redirect_flags;
  c_idle : Z }.

Record answers := { a_cookie : bool; a_name : bool; a_host : bool; a_dial : bool }.

Inductive read_item :=
| RData (data : bytes) (ans : answers)   (* ReadPacket returned data *)
| RErr.                                  (* ReadPacket returned an error (EOF, reset, text frame) *)

Inductive end_reason :=
| EndReadErr | EndFrameErr | EndMalformed | EndWrongState | EndMismatch
| EndCookie | EndName | EndHost | EndDialFail | EndClosed.

Inductive event :=
| Resp (ty status : N) (raw : bytes)     (* packet written to the client *)
| AskCookie (c : bytes) (ok : bool)
| AskName (n : bytes) (ok : bool)
| AskHost (h : bytes) (ok : bool)
| Dial (h : bytes) (ok : bool)           (* net.DialTimeout("tcp", h, ..) and its outcome *)
| ToHost (b : bytes)                     (* bytes written to the backend connection *)
| End (why : end_reason).                (* Process returned *)

Record tstate := { ph : N; fs : fstate }.
Definition tstate0 : tstate := {| ph := SERVER_STATE_INITIALIZED; fs := Fresh |}.

Definition resp (ty code : N) (raw : bytes) : event := Resp ty code raw.

(** One iteration of the [switch pt] in [Process] for a framed packet. Returns
    the new phase, the events, and whether [Process] returned. *)
Definition process_packet (c : cfg) (p : N) (ty : N) (body : bytes) (a : answers)
  : N * list event * bool :=
  if ty =? PKT_TYPE_HANDSHAKE_REQUEST then
    if negb (p =? SERVER_STATE_INITIALIZED) then
      (p, [Resp PKT_TYPE_HANDSHAKE_RESPONSE E_PROXY_INTERNALERROR
             (handshake_response 0 0 0 E_PROXY_INTERNALERROR); End EndWrongState], true)
    else
      let '(major, minor, _, ext) := handshake_request body in
      match match_auth (c_smartcard c) (c_token_auth c) ext with
      | None =>
          (p, [Resp PKT_TYPE_HANDSHAKE_RESPONSE E_PROXY_CAPABILITYMISMATCH
                 (handshake_response 0 0 0 E_PROXY_CAPABILITYMISMATCH); End EndMismatch], true)
      | Some caps =>
          (SERVER_STATE_HANDSHAKE,
           [Resp PKT_TYPE_HANDSHAKE_RESPONSE ERROR_SUCCESS
              (handshake_response major minor caps ERROR_SUCCESS)], false)
      end
  else if ty =? PKT_TYPE_TUNNEL_CREATE then
    if negb (p =? SERVER_STATE_HANDSHAKE) then
      (p, [Resp PKT_TYPE_TUNNEL_RESPONSE E_PROXY_INTERNALERROR
             (tunnel_response E_PROXY_INTERNALERROR); End EndWrongState], true)
    else
      let '(_, cookie) := tunnel_request body in
      if c_cookie_cb c && negb (a_cookie a) then
        (p, [AskCookie cookie false;
             Resp PKT_TYPE_TUNNEL_RESPONSE E_PROXY_COOKIE_AUTHENTICATION_ACCESS_DENIED
               (tunnel_response E_PROXY_COOKIE_AUTHENTICATION_ACCESS_DENIED); End EndCookie], true)
      else
        (SERVER_STATE_TUNNEL_CREATE,
         (if c_cookie_cb c then [AskCookie cookie true] else [])
           ++ [Resp PKT_TYPE_TUNNEL_RESPONSE ERROR_SUCCESS (tunnel_response ERROR_SUCCESS)], false)
  else if ty =? PKT_TYPE_TUNNEL_AUTH then
    if negb (p =? SERVER_STATE_TUNNEL_CREATE) then
      (p, [Resp PKT_TYPE_TUNNEL_AUTH_RESPONSE E_PROXY_INTERNALERROR
             (tunnel_auth_response (c_redir c) (c_idle c) E_PROXY_INTERNALERROR);
           End EndWrongState], true)
    else
      let client := tunnel_auth_request body in
      if c_name_cb c && negb (a_name a) then
        (p, [AskName client false;
             Resp PKT_TYPE_TUNNEL_AUTH_RESPONSE ERROR_ACCESS_DENIED
               (tunnel_auth_response (c_redir c) (c_idle c) ERROR_ACCESS_DENIED); End EndName], true)
      else
        (SERVER_STATE_TUNNEL_AUTHORIZE,
         (if c_name_cb c then [AskName client true] else [])
           ++ [Resp PKT_TYPE_TUNNEL_AUTH_RESPONSE ERROR_SUCCESS
                 (tunnel_auth_response (c_redir c) (c_idle c) ERROR_SUCCESS)], false)
  else if ty =? PKT_TYPE_CHANNEL_CREATE then
    if negb (p =? SERVER_STATE_TUNNEL_AUTHORIZE) then
      (p, [Resp PKT_TYPE_CHANNEL_RESPONSE E_PROXY_INTERNALERROR
             (channel_response E_PROXY_INTERNALERROR); End EndWrongState], true)
    else
      let '(server, port) := channel_request body in
      let host := join_host_port server port in
      if c_host_cb c && negb (a_host a) then
        (p, [AskHost host false;
             Resp PKT_TYPE_CHANNEL_RESPONSE E_PROXY_RAP_ACCESSDENIED
               (channel_response E_PROXY_RAP_ACCESSDENIED); End EndHost], true)
      else
        let asked := if c_host_cb c then [AskHost host true] else [] in
        if a_dial a then
          (SERVER_STATE_CHANNEL_CREATE,
           asked ++ [Dial host true;
                     Resp PKT_TYPE_CHANNEL_RESPONSE ERROR_SUCCESS (channel_response ERROR_SUCCESS)],
           false)
        else
          (p, asked ++ [Dial host false;
                        Resp PKT_TYPE_CHANNEL_RESPONSE E_PROXY_INTERNALERROR
                          (channel_response E_PROXY_INTERNALERROR); End EndDialFail], true)
  else if ty =? PKT_TYPE_DATA then
    if p <? SERVER_STATE_CHANNEL_CREATE then (p, [End EndWrongState], true)
    else (SERVER_STATE_OPENED, [ToHost (receive_payload body)], false)
  else if ty =? PKT_TYPE_KEEPALIVE then
    if p <? SERVER_STATE_CHANNEL_CREATE then (p, [End EndWrongState], true)
    else (p, [], false)
  else if ty =? PKT_TYPE_CLOSE_CHANNEL then
    if negb (p =? SERVER_STATE_OPENED) then (p, [End EndWrongState], true)
    else
      (SERVER_STATE_CLOSED,
       [Resp PKT_TYPE_CLOSE_CHANNEL_RESPONSE ERROR_SUCCESS (channel_close_response ERROR_SUCCESS);
        End EndClosed], true)
  else (p, [], false).                    (* default: logged and ignored *)

(** One transport read. *)
Definition tstep (c : cfg) (st : tstate) (it : read_item) : tstate * list event * bool :=
  match it with
  | RErr => (st, [End EndReadErr], true)
  | RData data a =>
      match fstep (fs st) data with
      | FNeed f => ({| ph := ph st; fs := f |}, [], false)
      | FError => (st, [End EndFrameErr], true)
      | FMalformed => (st, [End EndMalformed], true)
      | FPacket ty _ body =>
          let '(p', evs, fin) := process_packet c (ph st) ty body a in
          ({| ph := p'; fs := Fresh |}, evs, fin)
      end
  end.

(** The whole tunnel: events until [Process] returns (nothing after that). *)
Fixpoint run_from (c : cfg) (st : tstate) (items : list read_item) : list event :=
  match items with
  | [] => []
  | it :: rest =>
      let '(st', evs, fin) := tstep c st it in
      if fin then evs else evs ++ run_from c st' rest
  end.

Definition run (c : cfg) (items : list read_item) : list event := run_from c tstate0 items.

(** Number of transport reads [Process] performed before it returned. *)
Fixpoint consumed_from (c : cfg) (st : tstate) (items : list read_item) : nat :=
  match items with
  | [] => 0%nat
  | it :: rest =>
      let '(st', _, fin) := tstep c st it in
      if fin then 1%nat else S (consumed_from c st' rest)
  end.
Definition consumed (c : cfg) (items : list read_item) : nat := consumed_from c tstate0 items.

(** Environment answers as functions of what is asked. [resolve f] rewrites
    the answers of every read by [f], which sees the tunnel state before the
    read and the bytes read (the theorems quantify over all answers, so they
    cover every such environment). *)
Fixpoint resolve (f : tstate -> bytes -> answers -> answers) (c : cfg) (st : tstate)
         (items : list read_item) : list read_item :=
  match items with
  | [] => []
  | RErr :: rest => RErr :: rest
  | RData d a :: rest =>
      let a' := f st d a in
      let '(st', _, fin) := tstep c st (RData d a') in
      RData d a' :: (if fin then rest else resolve f c st' rest)
  end.

(** The address a channel-create packet completed by this read asks for. *)
Definition requested_host (st : tstate) (data : bytes) : option bytes :=
  match fstep (fs st) data with
  | FPacket ty _ body =>
      if ty =? PKT_TYPE_CHANNEL_CREATE then
        let '(server, port) := channel_request body in Some (join_host_port server port)
      else None
  | _ => None
  end.

(** The dial outcome as the environment decides it: [live] is the set of
    addresses that accept connections. *)
Definition dial_answer (live : list bytes) (st : tstate) (data : bytes) : bool :=
  match requested_host st data with
  | Some h => existsb (bytes_eqb h) live
  | None => true
  end.

Definition with_dial (live : list bytes) (st : tstate) (d : bytes) (a : answers) : answers :=
  {| a_cookie := a_cookie a; a_name := a_name a; a_host := a_host a; a_dial := dial_answer live st d |}.

(** The host-policy answer as a function [pol] of the requested address. *)
Definition with_policy (pol : bytes -> bool) (st : tstate) (d : bytes) (a : answers) : answers :=
  {| a_cookie := a_cookie a; a_name := a_name a;
     a_host := match requested_host st d with Some h => pol h | None => a_host a end;
     a_dial := a_dial a |}.

Definition resolve_dials (live : list bytes) := resolve (with_dial live).
Definition resolve_policy_dials (pol : bytes -> bool) (live : list bytes) :=
  resolve (fun st d a => with_dial live st d (with_policy pol st d a)).

(** Final state reached (for statements about phases). *)
Fixpoint final_from (c : cfg) (st : tstate) (items : list read_item) : tstate * bool :=
  match items with
  | [] => (st, false)
  | it :: rest =>
      let '(st', _, fin) := tstep c st it in
      if fin then (st', true) else final_from c st' rest
  end.

(** Wiring of the callbacks in [main()] (cmd/rdpgw/main.go:195-200): token
    authentication installs the cookie check; a host check is always installed;
    no client-name check is ever installed. *)
Definition wired (token_auth smartcard : bool) (r : redirect_flags) (idle : Z) : cfg :=
  {| c_token_auth := token_auth; c_smartcard := smartcard;
     c_cookie_cb := token_auth; c_name_cb := false; c_host_cb := true;
     c_redir := r; c_idle := idle |}.
