(** From the regenerated access facts (Gen/Facts.v) to a lockset program:
    every access recorded by the translator becomes a closed block
    [Lock held...; access; Unlock held...]. Definitions only. *)
From Coq Require Import List NArith Bool.
From Coq.Strings Require Import Byte.
From RDPGW Require Import Lib.Bytes Model.Lockset.
Import ListNotations.
Open Scope N_scope.

Definition fact := (bytes * N * bool * list N)%type.   (* function, location, write?, locks held *)
Definition f_loc (f : fact) : N := let '(_, l, _, _) := f in l.
Definition f_write (f : fact) : bool := let '(_, _, w, _) := f in w.
Definition f_held (f : fact) : list N := let '(_, _, _, h) := f in h.

Definition written (facts : list fact) (x : N) : bool :=
  existsb (fun f => (f_loc f =? x) && f_write f) facts.

(** Locks held by EVERY access to x. *)
Definition common_locks (facts : list fact) (x : N) : list N :=
  match filter (fun f => f_loc f =? x) facts with
  | [] => []
  | f :: fs => filter (fun m => forallb (fun g => mem m (f_held g)) fs) (f_held f)
  end.

(** The lock that protects x (0 when there is none). *)
Definition lk_of (facts : list fact) (x : N) : N := hd 0 (common_locks facts x).

(** The per-run obligation: every location that is ever written is accessed only
    under one common lock. *)
Definition discipline_ok (facts : list fact) : bool :=
  forallb (fun f => negb (written facts (f_loc f)) || negb (match common_locks facts (f_loc f) with [] => true | _ => false end)) facts.

(** The block of one recorded access (accesses to never-written locations are
    not shared-state conflicts and are left out). *)
Definition block_of (facts : list fact) (f : fact) : list act :=
  if written facts (f_loc f)
  then map Acq (f_held f) ++ [if f_write f then Wr (f_loc f) else Rd (f_loc f)] ++ map Rel (f_held f)
  else [].
