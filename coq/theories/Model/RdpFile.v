(** Transcription of the RDP-file reader/writer
    (cmd/rdpgw/rdp/koanf/parsers/rdp/rdp.go) and of the settings builder
    (cmd/rdpgw/rdp/rdp.go) over the regenerated settings table. Definitions only. *)
From Coq Require Import List NArith ZArith Bool.
From Coq.Strings Require Import Byte.
From RDPGW Require Import Lib.Bytes Gen.Consts.
Import ListNotations.
Open Scope Z_scope.

(** Linear list reversal (List.rev is quadratic when extracted). *)
Definition lrev (l : bytes) : bytes := rev_append l [].

(* ---- strings.TrimSpace on bytes ----
   ASCII blanks, and the UTF-8 encodings of the other unicode.IsSpace runes:
   U+0085 (C2 85), U+00A0 (C2 A0), U+1680 (E1 9A 80), U+2000-U+200A (E2 80 80..8A),
   U+2028, U+2029 (E2 80 A8/A9), U+202F (E2 80 AF), U+205F (E2 81 9F), U+3000 (E3 80 80). *)
Definition ascii_space (b : byte) : bool :=
  match b with x20 | x09 | x0a | x0b | x0c | x0d => true | _ => false end.

Definition space3 (a b c : byte) : bool :=
  match a, b with
  | xe1, x9a => Byte.eqb c x80
  | xe2, x80 => let n := b2n c in ((128 <=? n)%N && (n <=? 138)%N) || Byte.eqb c xa8 || Byte.eqb c xa9 || Byte.eqb c xaf
  | xe2, x81 => Byte.eqb c x9f
  | xe3, x80 => Byte.eqb c x80
  | _, _ => false
  end.
Definition space2 (a b : byte) : bool :=
  match a with xc2 => Byte.eqb b x85 || Byte.eqb b xa0 | _ => false end.

(** Width of the space rune at the head of [s] (0 = none). *)
Definition lead_space (s : bytes) : nat :=
  match s with
  | a :: rest =>
      if ascii_space a then 1%nat
      else match rest with
           | b :: rest' =>
               if space2 a b then 2%nat
               else match rest' with c :: _ => if space3 a b c then 3%nat else 0%nat | [] => 0%nat end
           | [] => 0%nat
           end
  | [] => 0%nat
  end.
(** Width of the space rune at the end of [s], given [rev s]. *)
Definition trail_space (r : bytes) : nat :=
  match r with
  | c :: rest =>
      if ascii_space c then 1%nat
      else match rest with
           | b :: rest' =>
               if space2 b c then 2%nat
               else match rest' with a :: _ => if space3 a b c then 3%nat else 0%nat | [] => 0%nat end
           | [] => 0%nat
           end
  | [] => 0%nat
  end.

Fixpoint trim_l (fuel : nat) (s : bytes) : bytes :=
  match fuel with
  | O => s
  | S f => match lead_space s with O => s | n => trim_l f (skipn n s) end
  end.
Fixpoint trim_r_rev (fuel : nat) (r : bytes) : bytes :=
  match fuel with
  | O => r
  | S f => match trail_space r with O => r | n => trim_r_rev f (skipn n r) end
  end.
Definition trim_space (s : bytes) : bytes :=
  let l := trim_l (length s) s in lrev (trim_r_rev (length l) (lrev l)).

(* ---- bufio.Scanner / ScanLines ---- *)
(** [dropCR] applied to the reversed line. *)
Definition drop_cr_rev (r : bytes) : bytes :=
  match r with x0d :: r' => lrev r' | _ => lrev r end.

Fixpoint split_lf (cur : bytes) (s : bytes) : list bytes :=
  match s with
  | [] => match cur with [] => [] | _ => [drop_cr_rev cur] end
  | c :: s' => if Byte.eqb c x0a then drop_cr_rev cur :: split_lf [] s' else split_lf (c :: cur) s'
  end.
Definition scan_lines (s : bytes) : list bytes := split_lf [] s.

(* ---- strings.SplitN(line, ":", 3) ---- *)
Fixpoint cut_colon (s : bytes) : bytes * option bytes :=
  match s with
  | [] => ([], None)
  | c :: s' => if Byte.eqb c x3a then ([], Some s')
               else let '(a, r) := cut_colon s' in (c :: a, r)
  end.
Definition splitn3 (s : bytes) : option (bytes * bytes * bytes) :=
  match cut_colon s with
  | (a, Some r1) => match cut_colon r1 with (b, Some r2) => Some (a, b, r2) | _ => None end
  | _ => None
  end.

(* ---- strconv.Atoi ---- *)
Definition int64_min : Z := -9223372036854775808.
Definition int64_max : Z := 9223372036854775807.
Definition atoi (s : bytes) : option Z :=
  let '(neg, digits) :=
    match s with
    | x2d :: d => (true, d)
    | x2b :: d => (false, d)
    | _ => (false, s)
    end in
  match undec digits with
  | Some n => let z := if neg then - Z.of_N n else Z.of_N n in
              if (int64_min <=? z) && (z <=? int64_max) then Some z else None
  | None => None
  end.

(** "%d" *)
Definition render_int (z : Z) : bytes :=
  if z <? 0 then x2d :: dec (Z.to_N (- z)) else dec (Z.to_N z).

(* ---- the parser ---- *)
Inductive value := VInt (z : Z) | VStr (s : bytes).
Definition kv := (bytes * value)%type.

Fixpoint set_kv (k : bytes) (v : value) (m : list kv) : list kv :=
  match m with
  | [] => [(k, v)]
  | (k', v') :: m' => if bytes_eqb k k' then (k, v) :: m' else (k', v') :: set_kv k v m'
  end.
Fixpoint lookup (k : bytes) (m : list kv) : option value :=
  match m with
  | [] => None
  | (k', v) :: m' => if bytes_eqb k k' then Some v else lookup k m'
  end.

Inductive line_result := LSkip | LEntry (k : bytes) (v : value) | LError.

Definition parse_line (raw : bytes) : line_result :=
  let line := trim_space raw in
  match line with
  | [] => LSkip
  | x23 :: _ => LSkip
  | _ =>
      match splitn3 line with
      | None => LError
      | Some (f0, f1, f2) =>
          let key := trim_space f0 in
          let t := trim_space f1 in
          let val := trim_space f2 in
          if bytes_eqb t [x69] then
            match atoi val with Some z => LEntry key (VInt z) | None => LError end
          else if bytes_eqb t [x73] || bytes_eqb t [x62] then LEntry key (VStr val)
          else LError
      end
  end.

Fixpoint parse_lines (ls : list bytes) (m : list kv) : option (list kv) :=
  match ls with
  | [] => Some m
  | l :: ls' =>
      match parse_line l with
      | LSkip => parse_lines ls' m
      | LEntry k v => parse_lines ls' (set_kv k v m)
      | LError => None
      end
  end.
Definition parse (b : bytes) : option (list kv) := parse_lines (scan_lines b) [].

(* ---- the marshaller (keys sorted bytewise) ---- *)
Fixpoint bytes_leb (a b : bytes) : bool :=
  match a, b with
  | [], _ => true
  | _ :: _, [] => false
  | x :: a', y :: b' => if (b2n x <? b2n y)%N then true else if (b2n y <? b2n x)%N then false else bytes_leb a' b'
  end.
Fixpoint insert_kv (e : kv) (m : list kv) : list kv :=
  match m with
  | [] => [e]
  | e' :: m' => if bytes_leb (fst e) (fst e') then e :: m else e' :: insert_kv e m'
  end.
Definition sort_kv (m : list kv) : list kv := fold_right insert_kv [] m.

Definition render_line (e : kv) : bytes :=
  match snd e with
  | VInt z => fst e ++ [x3a; x69; x3a] ++ render_int z ++ [x0d; x0a]
  | VStr s => fst e ++ [x3a; x73; x3a] ++ s ++ [x0d; x0a]
  end.
Definition marshal (m : list kv) : bytes := concat (map render_line (sort_kv m)).

(* ---- the settings builder ---- *)
(** A settings record: one value per row of RDP_TABLE (bool as VInt 0/1). *)
Definition settings := list value.

Definition default_of (k : rdp_kind) (d : option bytes) : value :=
  match k, d with
  | KStr, Some s => VStr s
  | KStr, None => VStr []
  | KInt, Some s => VInt (match atoi s with Some z => z | None => 0 end)
  | KInt, None => VInt 0
  | KBool, Some s => VInt (if bytes_eqb s [x74; x72; x75; x65] || bytes_eqb s [x31] then 1 else 0)
  | KBool, None => VInt 0
  end.
Definition defaults : settings := map (fun r => let '(_, _, k, d) := r in default_of k d) RDP_TABLE.

Definition value_eqb (a b : value) : bool :=
  match a, b with
  | VInt x, VInt y => x =? y
  | VStr x, VStr y => bytes_eqb x y
  | _, _ => false
  end.

(** [Builder.String()]: the non-default fields, in struct order. *)
Fixpoint emit_rows (rows : list (bytes * bytes * rdp_kind * option bytes)) (s : settings) : bytes :=
  match rows, s with
  | (_, name, k, d) :: rows', v :: s' =>
      (if value_eqb v (default_of k d) then [] else render_line (name, v)) ++ emit_rows rows' s'
  | _, _ => []
  end.
Definition emit (s : settings) : bytes := emit_rows RDP_TABLE s.

(** [NewBuilderFromFile]: defaults overridden by the known settings of the file
    (weakly typed: any integer for a bool field means "non-zero"). *)
Definition coerce (k : rdp_kind) (v : value) : option value :=
  match k, v with
  | KBool, VInt z => Some (VInt (if z =? 0 then 0 else 1))
  | KInt, VInt z => Some (VInt z)
  | KStr, VStr s => Some (VStr s)
  | _, _ => None                          (* cross-typed template values: outside the model *)
  end.
Fixpoint load_rows (rows : list (bytes * bytes * rdp_kind * option bytes)) (m : list kv) : option settings :=
  match rows with
  | [] => Some []
  | (_, name, k, d) :: rows' =>
      match load_rows rows' m with
      | None => None
      | Some rest =>
          match lookup name m with
          | None => Some (default_of k d :: rest)
          | Some v => match coerce k v with Some v' => Some (v' :: rest) | None => None end
          end
      end
  end.
Definition load (file : bytes) : option settings :=
  match parse file with Some m => load_rows RDP_TABLE m | None => None end.
