(** Transcription of [protocol.DecodeUTF16] (cmd/rdpgw/protocol/utf16.go) and of
    [net.JoinHostPort] as used by the channel-create step. No proofs here. *)
From Coq Require Import List NArith Bool.
From Coq.Strings Require Import Byte.
From RDPGW Require Import Lib.Bytes.
Import ListNotations.
Open Scope N_scope.

(** [utf8.EncodeRune] of the rune [utf16.Decode] yields for one 16-bit unit:
    a surrogate half (D800..DFFF) decodes to U+FFFD. *)
Definition encode_unit (u : N) : bytes :=
  if (0xD800 <=? u) && (u <=? 0xDFFF) then [xef; xbf; xbd]
  else if u <? 0x80 then [n2b u]
  else if u <? 0x800 then [n2b (0xC0 + u / 64); n2b (0x80 + u mod 64)]
  else [n2b (0xE0 + u / 4096); n2b (0x80 + (u / 64) mod 64); n2b (0x80 + u mod 64)].

Fixpoint decode_units (b : bytes) : bytes :=
  match b with
  | lo :: hi :: rest => encode_unit (b2n lo + 256 * b2n hi) ++ decode_units rest
  | _ => []
  end.

(** Drop one trailing NUL byte, if there is one (linear). *)
Fixpoint strip_one_nul (s : bytes) : bytes :=
  match s with
  | [] => []
  | c :: s' =>
      match s' with
      | [] => if Byte.eqb c x00 then [] else [c]
      | _ :: _ => c :: strip_one_nul s'
      end
  end.

(** Odd length: the Go function returns ("", error) and every caller ignores
    the error. *)
Definition decode_utf16 (b : bytes) : bytes :=
  if Nat.odd (length b) then [] else strip_one_nul (decode_units b).

(** [net.JoinHostPort(host, strconv.Itoa(int(port)))]. *)
Definition join_host_port (host : bytes) (port : N) : bytes :=
  if contains_byte x3a host || contains_byte x25 host
  then [x5b] ++ host ++ [x5d; x3a] ++ dec port
  else host ++ [x3a] ++ dec port.

(** ASCII text as UTF-16LE (what a well-behaved client sends). *)
Fixpoint encode_ascii16 (s : bytes) : bytes :=
  match s with [] => [] | c :: s' => c :: x00 :: encode_ascii16 s' end.
